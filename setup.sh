#!/bin/sh
# Build everything the checks need from files on disk only (offline).
set -e
cd "$(dirname "$0")"
export CARGO_NET_OFFLINE=true
mkdir -p .build/run evidence replays
python3 -c "
from sircv import sut, pure
print(sut.build())
print(pure.build())
"
