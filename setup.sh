#!/bin/sh
# Build everything the checks need from files on disk only (offline).
set -e
cd "$(dirname "$0")"
export CARGO_NET_OFFLINE=true
mkdir -p .build/run evidence replays
python3 - <<'PY'
from sircv import sut, pure
print(sut.build())
print(pure.build())
try:
    print(sut.build(features=("verif", "tls_rustls")))
except sut.BuildError as e:
    print("TLS build unavailable (C20 TLS twin will be inconclusive):", str(e)[-300:])
PY
