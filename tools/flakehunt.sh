#!/bin/sh
# run every quick check at many seeds on the unchanged tree; print only non-zero exits
cd "$(dirname "$0")/.."
./setup.sh > /dev/null 2>&1
for s in $(seq ${1:-10} ${2:-19}); do
  for p in C01 C02 C03 C04 C05 C06 C07 C08 C09 C10 C11 C12 C13 C14 C15 C16 C17 C18 C19 C20; do
    VERIF_SEED=$s ./check $p > /tmp/fh-$$.log 2>&1
    rc=$?
    if [ $rc -ne 0 ]; then echo "NONZERO $p seed=$s exit=$rc"; grep -A3 "VIOLATION\|INCONCLUSIVE" /tmp/fh-$$.log | cut -c1-600; fi
  done
  echo "seed $s done"
done
rm -f /tmp/fh-$$.log
