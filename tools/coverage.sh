#!/bin/sh
# development aid: which lines of the server do the quick checks reach?
# tools/coverage.sh [tier] -> .build/coverage/report.txt (per file) and .build/coverage/uncovered-<file>.txt
cd "$(dirname "$0")/.."
TIER=${1:-quick}
BIN=$(rustc +nightly --print sysroot)/lib/rustlib/x86_64-unknown-linux-gnu/bin
OUT=$PWD/.build/coverage
RAW=/tmp/sirc-cov-$$
rm -rf "$OUT"; mkdir -p "$OUT" "$RAW"
for p in C01 C02 C03 C04 C05 C06 C07 C08 C09 C10 C11 C12 C13 C14 C15 C16 C17 C18 C19 C20; do
  VERIF_COVERAGE=$RAW ./check $p --tier $TIER > "$OUT/$p.log" 2>&1
  echo "$p exit $? $(ls $RAW | wc -l) profiles"
  ls $RAW/*.profraw > "$RAW/list" 2>/dev/null
  if [ -s "$RAW/list" ]; then
    if [ -f "$OUT/all.profdata" ]; then echo "$OUT/all.profdata" >> "$RAW/list"; fi
    "$BIN/llvm-profdata" merge -sparse -f "$RAW/list" -o "$OUT/new.profdata" 2> "$OUT/merge-$p.err" && mv "$OUT/new.profdata" "$OUT/all.profdata"
    cp "$OUT/all.profdata" "$OUT/upto-$p.profdata"
  fi
  rm -f $RAW/*.profraw $RAW/list
done
rm -rf "$RAW"
OBJ=.build/target-cov/debug/sirc-verif
"$BIN/llvm-cov" report "$OBJ" -instr-profile="$OUT/all.profdata" --ignore-filename-regex='/.cargo/|/rustc/' > "$OUT/report.txt"
"$BIN/llvm-cov" show "$OBJ" -instr-profile="$OUT/all.profdata" --ignore-filename-regex='/.cargo/|/rustc/' --show-line-counts-or-regions > "$OUT/show.txt"
tail -25 "$OUT/report.txt"
