#!/bin/sh
# re-run the quick check of every seeded change's own property against that change (in one scratch worktree)
# usage: tools/redetect.sh [ids...]   -> .build/logs/redetect.log
cd "$(dirname "$0")/.."
WT=/tmp/sirc-redetect-$$
git -C /repo worktree remove --force $WT 2>/dev/null; rm -rf $WT
git -C /repo worktree add --detach $WT -q || exit 2
cp /repo/Cargo.lock $WT/ 2>/dev/null
LOG=${REDETECT_LOG:-.build/logs/redetect.log}; : > $LOG
IDS="$@"; [ -z "$IDS" ] && IDS=$(ls seeded)
for id in $IDS; do
  git -C $WT checkout -q -- . ; git -C $WT apply /verif/seeded/$id/patch.diff || { echo "$id APPLY-FAILED" >> $LOG; continue; }
  python3 tools/seed.py detect-in $id $WT 2>&1 | tail -1 | cut -c1-260 >> $LOG
done
git -C /repo worktree remove --force $WT; rm -rf $WT
H=$(python3 -c "import hashlib,os;print(hashlib.sha1(os.path.realpath('$WT').encode()).hexdigest()[:10])")
rm -rf .build/target-$H
grep -c "exit 1" $LOG; grep -v "exit 1" $LOG
