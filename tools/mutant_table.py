#!/usr/bin/env python3
"""regenerate the seeded-changes table in DESIGN.md from seeded/*/meta.json"""
import json, os, re, glob
V = os.path.dirname(os.path.dirname(os.path.abspath(__file__)))
rows = []
for d in sorted(glob.glob(os.path.join(V, "seeded", "*"))):
    m = json.load(open(os.path.join(d, "meta.json")))
    readme = open(os.path.join(d, "README.md"), errors="replace").read() if os.path.exists(os.path.join(d, "README.md")) else ""
    what = m.get("summary") or ""
    det = []
    for p, r in sorted(m.get("detected_by", {}).items()):
        if r["exit"] == 1:
            det.append("%s quick: `%s`" % (p, (r["violations"] or ["?"])[0][:70]))
        else:
            det.append("%s quick: **missed** (exit %s)" % (p, r["exit"]))
    rows.append("| %s | %s | %s | %s |" % (m["id"], m["property"], what.replace("|", "/")[:160], "; ".join(det) + (" - " + m["note"] if m.get("note") else "")))
table = "| seeded id | property | change | detected by (as recorded in meta.json) |\n|---|---|---|---|\n" + "\n".join(rows)
p = os.path.join(V, "DESIGN.md")
s = open(p).read()
begin, end = "<!-- MUTANT-TABLE-BEGIN -->", "<!-- MUTANT-TABLE-END -->"
block = begin + "\n" + table + "\n" + end
if begin in s:
    s = re.sub(re.escape(begin) + ".*?" + re.escape(end), lambda _: block, s, flags=re.S)
else:
    s = s.replace("## Appendix A", "### 10.6 Seeded changes: table\n\n" + block + "\n\n## Appendix A", 1)
open(p, "w").write(s)
print(len(rows), "rows")
