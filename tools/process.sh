#!/bin/sh
# tools/process.sh <PROP> <worktree-suffix> [extra props...]: verify a sub-agent's change and run the quick check against it
P=$1; S=$2; shift 2
OUT=$(python3 /verif/tools/seed.py verify $P /tmp/mut-$P$S 2>&1 | tail -1)
echo "$OUT"
SID=$(echo "$OUT" | awk '{print $1}')
case "$OUT" in *" confirmed "*) python3 /verif/tools/seed.py detect-in $SID /tmp/mut-$P$S "$@" 2>&1 | tail -2 | cut -c1-300;; esac
