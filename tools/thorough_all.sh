#!/bin/sh
# run every thorough check once on the unchanged tree; print exit code and last line of each
cd "$(dirname "$0")/.."
./setup.sh > /dev/null 2>&1
for p in ${@:-C01 C02 C03 C04 C05 C06 C07 C08 C09 C10 C11 C12 C13 C14 C15 C16 C17 C18 C19 C20}; do
  t0=$(date +%s)
  ./check $p --tier thorough > /tmp/th-$$.log 2>&1
  rc=$?
  echo "$p exit=$rc $(( $(date +%s) - t0 ))s $(tail -1 /tmp/th-$$.log | cut -c1-200)"
  if [ $rc -ne 0 ]; then grep -A3 "VIOLATION\|INCONCLUSIVE" /tmp/th-$$.log | cut -c1-600 | head -30; fi
done
rm -f /tmp/th-$$.log
