#!/usr/bin/env python3
"""list the server's source lines never executed, from `llvm-cov show` output (see tools/coverage.sh)"""
import re, sys
cur = None
n = 0
for l in open(sys.argv[1]):
    if l.startswith('/') and l.rstrip().endswith(':'):
        cur = l.strip().rstrip(':')
        continue
    m = re.match(r'\s*(\d+)\|\s*0\|(.*)', l)
    if m and cur and '/src/' in cur and 'verif.rs' not in cur and '/rustlib/' not in cur:
        print("%s:%s: %s" % (cur.split('/src/')[1], m.group(1), m.group(2)[:110]))
        n += 1
print(n, "lines", file=sys.stderr)
