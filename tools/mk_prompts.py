#!/usr/bin/env python3
"""write sub-agent prompts /tmp/prompt-<ID><suffix>.txt (property text + worktree + ideas already used)"""
import json, glob, sys
suffix = sys.argv[1]
props = {json.loads(l)["id"]: json.loads(l) for l in open('/verif/properties.jsonl')}
used = {}
for d in sorted(glob.glob('/verif/seeded/*/meta.json')):
    m = json.load(open(d))
    used.setdefault(m["property"], []).append(m.get("summary", ""))
for pid, p in props.items():
    wt = "/tmp/mut-%s%s" % (pid, suffix)
    avoid = "; ".join(used.get(pid, [])) or "(none yet)"
    s = f"""You are helping to evaluate a test/verification setup for an IRC server written in Rust (simple-irc-server, Tokio). You work ONLY inside the git worktree at {wt} (a scratch copy of the repository; Cargo.lock is present; everything must be done offline: always use `cargo --offline`). Do not read or touch anything under /verif or /repo, and do not commit. Never use `git stash` (it is shared between worktrees): to test the unmodified source save your diff to a file, `git checkout -- src`, and re-apply it with `git apply` afterwards.

Here is a semantic property that the server is supposed to satisfy:

  Title: {p['title']}
  Statement: {p['statement']}
  It must hold: {p['quantifier']['text']}

Your task: craft ONE realistic, subtle change (a bug a developer could plausibly introduce, e.g. a refactoring slip, a dropped condition, a wrong container updated, an off-by-one, two sites that each look fine alone) to the server's source under {wt}/src that BREAKS this property, while
  (a) the crate still compiles (`cargo build --offline`), and
  (b) the stable unit tests still pass: `cargo test --offline -- command::test config::test reply::test state::structs::test utils::test` (38 tests; do not edit existing tests), and
  (c) the breakage needs something specific to manifest - a particular multi-step sequence of operations, an unusual input, a particular rank/mode/state combination, a particular interleaving or a fault at a particular point - i.e. ordinary simple use (connect, join, chat) would NOT expose it at once.
Ideas already used by others for this property - choose something clearly different (another clause of the property, another command, another code path, another kind of slip): {avoid}.
Do not touch src/state/verif.rs or the `verif` cargo feature (inert instrumentation), and keep the change small (a few lines).

Then write a demonstration that fails with your change and passes without it: preferably a self-contained Python 3 script (stdlib only) that starts the built server binary ({wt}/target/debug/simple-irc-server -c <config.toml>) on a free loopback port with a config it writes itself (see config-example.toml for the format; note dns_lookup must be false and the [tls] section omitted; password fields hold hashes printed by `simple-irc-server -g -P <password>`; ping_timeout/pong_timeout are seconds), speaks IRC over TCP, and exits 0 if the property held and 1 if it is violated. Verify BOTH directions yourself: run the demo against the unmodified source and against the modified source.

Deliver, inside {wt}/MUTANT/ :
  - patch.diff  : output of `git diff -- src` for your change (must apply with `git apply` to a clean checkout of this worktree's HEAD)
  - demo.py (or demo.rs + instructions) : the demonstration
  - README.md   : which clause of the property it breaks, what exactly is needed for it to manifest, the commands you ran and their results (build, the 38 tests, demo on clean tree = pass, demo on changed tree = fail).
Leave the worktree with your change APPLIED to src (so `git diff -- src` shows it). In your final answer summarise the change in 3-6 lines.
"""
    open("/tmp/prompt-%s%s.txt" % (pid, suffix), "w").write(s)
print("ok")
