#!/usr/bin/env python3
import json, os
V = os.path.dirname(os.path.dirname(os.path.abspath(__file__)))
C = {
 "C01": ("exploration", "E1 seqdiff", "reference-model differential monitoring of wire deliveries (barrier protocol) + snapshot invariants; pipelined floods to prompt, late and leaving receivers (per-copy, per-order history check); deterministic scenarios (chunk sizes, rank matrix, nickname twins)",
         "held on every PRIVMSG/NOTICE of thousands of generated multi-client histories: each socket's inbox between two barriers equals the model's multiset of (prefix, verb, target, text); exploration, not proof", "4 C01"),
 "C02": ("fault_enumeration", "E4 own + E1", "enumeration of command interleavings of contending connections with ownership invariants after every step; E1 model monitoring incl. gated probes by never-welcomed connections; claim / rename storms with jitter; sessions stuck behind unread output ended by KILL/close/reset; nickname-twin scenarios",
         "all (thorough) / sampled (quick) interleavings of 2-3 registration scripts incl. closes at every position, with and without server password; sub-command windows are C18's", "4 C02"),
 "C03": ("fault_enumeration", "E4 gate", "exhaustive command-sequence enumeration on fresh connections against a reference automaton (all words to length 3/4, capability cores, pairs of CAP sub-commands, password cores incl. repeated and near-miss PASS), observer client and snapshot equality",
         "every sequence up to length 3 (quick) / 4 (thorough) over the reduced alphabet x 4 configurations is run; longer sequences and the full alphabet are sampled", "4 C03"),
 "C04": ("exploration", "E1 seqdiff", "reference-model differential monitoring; NAMES/WHO/WHOIS probes between visibility bounds; rosters reconstructed from announcements; snapshot invariants I1/I2; rename / first-join / quit-flood storms with roster check; stuck-session cases (the nickname's new owner stays a member); long-names scenario",
         "membership relation compared with the model after every step of generated histories; three views probed from members and outsiders", "4 C04"),
 "C05": ("exploration", "E7 fuzz + E1", "grammar+mutation fuzzing of the running server with handler-abort sentinel, EOF classifier, bystander liveness, ghost check; hostile E1 histories; stalled-reader and leaving-member floods; pipelined queries against pipelined writers (W14, diagnosed time-outs); Rust debug-profile runtime checks; ASan, release and valgrind-memcheck legs at thorough",
         "tens of thousands (quick) to millions (thorough) of hostile lines in 12 session states; the input space is unbounded, so this is sampling", "4 C05"),
 "C06": ("fault_enumeration", "E1 inject", "fault enumeration: each of 10 endings injected at every (sampled) position of seeded histories, model + snapshot restricted to survivors, re-registration and WHOWAS probes; sessions stuck behind unread output ended by KILL/close/reset; ping-timeout endings of users with ranks, channels, modes and invitations (snapshot = before minus them); long WHOWAS history scenario",
         "positions x endings of seeded histories are enumerated (all in thorough, a rotating subset in quick); histories themselves are sampled", "4 C06"),
 "C07": ("exploration", "E1 seqdiff", "reference-model differential monitoring with the reference glob; truth-vector coverage accounting",
         "JOIN decisions compared with the conjunction of the statement on generated channel states; evidence lists which truth vectors were seen", "4 C07"),
 "C08": ("exploration", "E1 seqdiff", "reference-model differential monitoring; MODE announcements parsed with the multi-modestring grammar and compared with accepted changes and snapshot",
         "every acting rank x letter x sign x target rank class reached by the generator is checked for effect, announcement and refusal", "4 C08"),
 "C09": ("exploration", "E1 seqdiff", "reference-model differential monitoring of KICK/TOPIC/INVITE; deterministic rank matrix (8 rank sets x 9 victims)", "actor rank x victim rank cases of generated histories", "4 C09"),
 "C10": ("exploration", "E1 seqdiff", "reference-model differential monitoring of the send decision; NOTICE must draw no numeric", "condition vectors (member, voiced, +n, +s, +m, banned, excepted) reached by generated histories", "4 C10"),
 "C11": ("exploration", "E1 seqdiff", "reference-model differential monitoring with privilege as a derived variable of the history; DIE/SQUIT observed at episode end; repeated KILL of a session stuck behind its own output", "generated histories under 6 operator/default-mode configurations", "4 C11"),
 "C12": ("exploration", "E1t twin", "runtime self-composition: normalised observer transcripts of two worlds differing only in the hidden part must be equal (observers incl. ones refused at the door; hidden users incl. predefined accounts)", "hundreds (quick) / thousands (thorough) of generated world pairs x 10-18 query forms; implementation-agnostic oracle", "4 C12"),
 "C13": ("exploration", "E3 pure + framing + E1 noise", "differential testing of the live parser/serialiser against an independent reference grammar (exhaustive small alphabet + random), wire framing driver (segments, lengths, verb x arity, invalid parameters, rejected lines sent alone), metamorphic serialisation twins on E1 incl. parameters beyond a verb's maximum; Miri at thorough",
         "exhaustive over a 5-letter alphabet to length 6 (8 thorough); the rest sampled", "4 C13"),
 "C14": ("exploration", "E3 pure + E1", "differential testing of match_wildcard / normalize_sourcemask against a textbook DP glob (exhaustive small alphabets + random), catch_unwind, Miri at thorough; wire decisions against the model's reference glob",
         "exhaustive for patterns/texts up to length 5 (6 thorough) over small alphabets; long pairs sampled", "4 C14"),
 "C15": ("exploration", "E1 seqdiff", "reference-model differential monitoring of NICK; snapshot compares every nick-keyed container (I2, I3, I6)", "rich user states x new-nick classes of generated histories", "4 C15"),
 "C16": ("exploration", "E1 seqdiff", "reference-model differential monitoring incl. preconfigured channels under generated configurations; invariant I5", "create/empty/recreate cycles under generated configurations of predefined channels", "4 C16"),
 "C17": ("exploration", "E5 clock", "timestamped event-log monitoring with bounded-progress rules under second-scale timeouts and scripted responder patterns (incl. fragments, split / surplus / double answers, a handler kept busy across the deadline); harness lag measured; clean-up of timed-out users with attachments", "3 (quick) / 7 (thorough) timeout configurations x 29 scripted peers (22 distinct behaviours) in real time", "4 C17"),
 "C18": ("exploration", "E2 storm", "concurrent stress with jitter hook; offline history checkers: unique winner (claims, renames behind a lock holder), capacity, total-order reconstruction, per-(sender,receiver) FIFO, no-loss under leaving members, bounded progress for bystanders of a stalled reader and for a backlogged receiver's own commands, one-state multi-line query answers, one announcement sequence for many writers of one attribute (W13), queries against writers (W14), mutually exclusive commands (W15), stuck-session endings, quiescent invariants; server diagnosis on time-outs",
         "hundreds of storm rounds; only schedules the OS and the jitter hook produce; specific linearizability consequences, not a full linearizability search", "4 C18"),
 "C19": ("exploration", "E1 seqdiff + slots", "reference-model differential monitoring of LUSERS/ISON/USERHOST with counter recount (I4, I8) under default-mode / account / quota configurations; connection-slot driver; multi-line query storms; stuck-session cases", "generated histories + slot rounds for max_connections in {1,2,5}", "4 C19"),
 "C20": ("exploration", "E6 boot", "process-level monitoring: start-up with mutated configuration files vs a reference validator; documentation-driven perturbation of every key of config-example.toml under a fixed probe; hash round trip incl. passwords ending in blanks; CLI overrides incl. invalid and repairing ones; keep-alive timing probe; account and default-mode effect probes; plain/TLS twin transcripts",
         "one mutation per documented validation rule and per documented key; TLS twin on one 30-step script", "4 C20"),
}
checks = []
for pid in sorted(C):
    lvl, eng, tech, text, ref = C[pid]
    checks.append({
        "property_id": pid,
        "quick_cmd": "./check %s --tier quick" % pid,
        "thorough_cmd": "./check %s --tier thorough" % pid,
        "evidence_file": "/verif/evidence/%s.json" % pid,
        "replay_cmd_template": "./check %s --replay {path}" % pid,
        "engine": eng,
        "level_claimed": {"category": lvl, "text": text, "design_ref": "DESIGN.md section " + ref},
        "level_note": "trusted base: the Python harness (wire client, barrier protocol, reference model/grammar/glob), the snapshot hook reading the state under the server's own lock, loopback TCP ordering; verdicts are 'held on what was observed', never 'verified'",
        "technique": tech,
    })
m = {
 "version": 1,
 "setup_cmd": "./setup.sh",
 "hooks": {"guard": "cargo feature `verif` (off by default)",
           "enable": "cargo build --offline --features verif (CARGO_TARGET_DIR=/verif/.build/target); checks run it themselves on every invocation",
           "baseline_off_cmd": "cd /repo && cargo test --offline -- command::test config::test reply::test state::structs::test utils::test",
           "source_commits": ["c502e66"], "add_only": True},
 "engines": [
   {"name": "E1 seqdiff", "path": "sircv/world.py sircv/model.py sircv/gen.py sircv/e1.py sircv/invariants.py", "serves_properties": ["C01","C02","C04","C05","C06","C07","C08","C09","C10","C11","C13","C14","C15","C16","C19"], "kind_free_text": "sequential differential monitor: real server over TCP, barrier protocol, reference model, snapshot invariants"},
   {"name": "E2 storm", "path": "sircv/storm.py sircv/stuck.py sircv/idleout.py", "serves_properties": ["C01","C02","C03","C04","C05","C06","C07","C08","C09","C11","C15","C16","C17","C18","C19"], "kind_free_text": "concurrent stress + history checkers"},
   {"name": "E3 pure", "path": "pure/ sircv/pure.py", "serves_properties": ["C13","C14","C20"], "kind_free_text": "Rust #[path] harness over the live sources, reference grammar/glob, catch_unwind, Miri"},
   {"name": "E4 gate/own", "path": "sircv/gate.py", "serves_properties": ["C02","C03"], "kind_free_text": "registration state-machine explorer and ownership interleaving explorer"},
   {"name": "E5 clock", "path": "sircv/clock.py", "serves_properties": ["C17"], "kind_free_text": "keep-alive event-log monitor"},
   {"name": "E6 boot", "path": "sircv/boot.py", "serves_properties": ["C20"], "kind_free_text": "start-up / configuration monitor"},
   {"name": "E7 fuzz", "path": "sircv/fuzz.py sircv/framing.py", "serves_properties": ["C05","C13"], "kind_free_text": "hostile-input monitor and framing driver"},
   {"name": "E1t twin", "path": "sircv/twin.py", "serves_properties": ["C12","C20"], "kind_free_text": "metamorphic twins (two worlds / two transports)"},
 ],
 "checks": checks,
 "notes": "VERIF_SEED seeds every random choice; exit 0 = held on everything explored, 1 = VIOLATION line(s), 2 = INCONCLUSIVE (floor not reached / build failed). known_findings.json lists genuine defects (fixed ones are regression probes, open ones print KNOWN-FINDING).",
 "not_applicable": [],
}
json.dump(m, open(os.path.join(V, "MANIFEST.json"), "w"), indent=1)
print("ok", len(checks))
