#!/usr/bin/env python3
"""Keep and evaluate seeded changes.
  seed.py verify <PROP> <worktree>     confirm a sub-agent's change (build, 38 tests, demo both ways) and store it
  seed.py detect <seeded-id> [PROP..]  apply patch to /repo, run the quick checks, undo, record the outcome
"""
import json, os, shutil, subprocess, sys, time

VERIF = os.path.dirname(os.path.dirname(os.path.abspath(__file__)))
TESTS = ["cargo", "test", "--offline", "--", "command::test", "config::test", "reply::test",
         "state::structs::test", "utils::test"]


def sh(cmd, cwd=None, timeout=1800, env=None):
    p = subprocess.run(cmd, cwd=cwd, stdout=subprocess.PIPE, stderr=subprocess.STDOUT, text=True,
                       timeout=timeout, env=env)
    return p.returncode, p.stdout


def verify(prop, wt):
    mdir = os.path.join(wt, "MUTANT")
    n = 1
    while os.path.exists(os.path.join(VERIF, "seeded", "%s-%d" % (prop, n))):
        n += 1
    sid = "%s-%d" % (prop, n)
    log = []
    env = dict(os.environ, CARGO_NET_OFFLINE="true")
    demo = "demo.py" if os.path.exists(os.path.join(mdir, "demo.py")) else None
    rc, out = sh(["git", "diff", "--stat", "--", "src"], cwd=wt)
    log.append("diff stat (changed tree):\n" + out)
    rc, out = sh(["cargo", "build", "--offline"], cwd=wt, env=env)
    log.append("build with change: rc=%d" % rc)
    ok = rc == 0
    rc, out = sh(TESTS, cwd=wt, env=env)
    passed = "38 passed" in out
    log.append("stable tests with change: rc=%d %s" % (rc, [l for l in out.splitlines() if "test result" in l]))
    ok = ok and passed
    res_with = res_without = None
    if demo:
        rc, out = sh(["python3", os.path.join(mdir, demo)], cwd=wt, timeout=600)
        res_with = rc
        log.append("demo with change: exit %d\n%s" % (rc, out[-800:]))
        sh(["git", "stash"], cwd=wt)
        rc, out = sh(["cargo", "build", "--offline"], cwd=wt, env=env)
        rc, out = sh(["python3", os.path.join(mdir, demo)], cwd=wt, timeout=600)
        res_without = rc
        log.append("demo without change: exit %d\n%s" % (rc, out[-400:]))
        sh(["git", "stash", "pop"], cwd=wt)
    rc, out = sh(["git", "-C", "/repo", "apply", "--check", os.path.join(mdir, "patch.diff")])
    applies = rc == 0
    log.append("patch applies to /repo HEAD: %s %s" % (applies, out[-200:]))
    confirmed = ok and applies and demo and res_with not in (0, None) and res_without == 0
    print(sid, "confirmed" if confirmed else "NOT CONFIRMED", "with=%s without=%s tests=%s applies=%s"
          % (res_with, res_without, passed, applies))
    if not confirmed:
        print("\n".join(log)[-3000:])
        return None
    dst = os.path.join(VERIF, "seeded", sid)
    os.makedirs(dst)
    for f in os.listdir(mdir):
        if os.path.isfile(os.path.join(mdir, f)) and os.path.getsize(os.path.join(mdir, f)) < 300000:
            shutil.copy(os.path.join(mdir, f), dst)
    rc, head = sh(["git", "-C", "/repo", "rev-parse", "--short", "HEAD"])
    meta = {"id": sid, "property": prop, "base_commit": head.strip(),
            "needs_to_manifest": "see README.md",
            "confirmed": {"build": True, "stable_tests_38_pass": True, "demo_with_change_exit": res_with,
                          "demo_without_change_exit": res_without, "worktree": wt,
                          "commands": ["cargo build --offline", " ".join(TESTS), "python3 MUTANT/demo.py (changed tree)",
                                       "git stash; cargo build --offline; python3 MUTANT/demo.py; git stash pop"]},
            "detected_by": {}}
    with open(os.path.join(dst, "meta.json"), "w") as f:
        json.dump(meta, f, indent=1)
    with open(os.path.join(dst, "verify.log"), "w") as f:
        f.write("\n".join(log))
    return sid


def detect_in(sid, wt, props):
    """run the checks against a worktree that already has the change applied (VERIF_REPO), /repo untouched"""
    dst = os.path.join(VERIF, "seeded", sid)
    meta = json.load(open(os.path.join(dst, "meta.json")))
    props = props or [meta["property"]]
    rc, out = sh(["git", "diff", "--stat", "--", "src"], cwd=wt)
    if not out.strip():
        sh(["git", "apply", os.path.join(dst, "patch.diff")], cwd=wt)
    for p in props:
        t = time.time()
        env = dict(os.environ, VERIF_REPO=wt)
        ev = os.path.join(VERIF, "evidence", p + ".json")
        keep = open(ev).read() if os.path.exists(ev) else None
        rc, out = sh([os.path.join(VERIF, "check"), p], cwd=VERIF, env=env)
        if keep is not None:
            open(ev, "w").write(keep)  # evidence files describe the unchanged tree only
        sigs = [l.strip()[len("signature: "):] for l in out.splitlines() if l.strip().startswith("signature: ")]
        meta["detected_by"][p] = {"exit": rc, "violations": sigs[:6], "wall_s": round(time.time() - t, 1),
                                  "tier": "quick", "seed": int(os.environ.get("VERIF_SEED", "1")), "via": "VERIF_REPO=" + wt}
        print(sid, p, "exit", rc, sigs[:4])
    if os.environ.get("SEED_NO_RECORD"):
        return  # a sweep at another seed: meta.json keeps the seed-1 record
    with open(os.path.join(dst, "meta.json"), "w") as f:
        json.dump(meta, f, indent=1)


def detect(sid, props):
    dst = os.path.join(VERIF, "seeded", sid)
    meta = json.load(open(os.path.join(dst, "meta.json")))
    props = props or [meta["property"]]
    rc, out = sh(["git", "-C", "/repo", "status", "--porcelain", "--untracked-files=no"])
    if out.strip():
        print("refusing: /repo has local modifications:\n" + out)
        return
    rc, out = sh(["git", "-C", "/repo", "apply", os.path.join(dst, "patch.diff")])
    if rc != 0:
        print("patch does not apply:", out)
        return
    try:
        for p in props:
            t = time.time()
            env = dict(os.environ)
            ev = os.path.join(VERIF, "evidence", p + ".json")
            keep = open(ev).read() if os.path.exists(ev) else None
            rc, out = sh([os.path.join(VERIF, "check"), p], cwd=VERIF, env=env)
            if keep is not None:
                open(ev, "w").write(keep)  # evidence files describe the unchanged tree only
            sigs = [l.strip()[len("signature: "):] for l in out.splitlines() if l.strip().startswith("signature: ")]
            meta["detected_by"][p] = {"exit": rc, "violations": sigs[:6], "wall_s": round(time.time() - t, 1),
                                      "tier": "quick", "seed": int(os.environ.get("VERIF_SEED", "1"))}
            print(sid, p, "exit", rc, sigs[:4])
    finally:
        sh(["git", "-C", "/repo", "checkout", "--", "."])
    with open(os.path.join(dst, "meta.json"), "w") as f:
        json.dump(meta, f, indent=1)


if __name__ == "__main__":
    if sys.argv[1] == "verify":
        verify(sys.argv[2], sys.argv[3])
    elif sys.argv[1] == "detect-in":
        detect_in(sys.argv[2], sys.argv[3], sys.argv[4:])
    else:
        detect(sys.argv[2], sys.argv[3:])
