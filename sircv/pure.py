"""Runner for the Rust in-process harness (/verif/pure) over the live sources of the SUT."""
import fcntl
import json
import os
import re
import shutil
import subprocess

from . import sut

PURE = os.path.join(sut.VERIF, "pure")


class PureError(Exception):
    pass


def _prepare(repo):
    link = os.path.join(PURE, "sut-src")
    want = os.path.join(os.path.realpath(repo), "src")
    if os.path.islink(link):
        if os.readlink(link) != want:
            os.unlink(link)
    elif os.path.exists(link):
        raise PureError("sut-src exists and is not a symlink")
    if not os.path.islink(link):
        os.symlink(want, link)
    # Cargo.toml: the repository's dependency tables, our own [package]/[[bin]]
    text = open(os.path.join(repo, "Cargo.toml")).read()
    m = re.search(r"(?ms)^\[dependencies\].*", text)
    deps = m.group(0) if m else ""
    head = ('[package]\nname = "simple-irc-server"\nversion = "0.0.0"\nedition = "2018"\n'
            'publish = false\n\n[[bin]]\nname = "sirc-pure"\npath = "src/main.rs"\n\n'
            '[profile.dev]\nopt-level = 1\n\n')
    new = head + deps
    p = os.path.join(PURE, "Cargo.toml")
    if not os.path.exists(p) or open(p).read() != new:
        with open(p, "w") as f:
            f.write(new)
    lock = os.path.join(repo, "Cargo.lock")
    if os.path.exists(lock):
        dst = os.path.join(PURE, "Cargo.lock")
        if not os.path.exists(dst):
            shutil.copy(lock, dst)


def _env(repo, miri=False):
    env = dict(os.environ)
    env["CARGO_NET_OFFLINE"] = "true"
    env["CARGO_TARGET_DIR"] = os.path.join(sut.BUILD_ROOT, "pure-miri" if miri else "pure-target")
    if os.path.realpath(repo) != "/repo":
        env["CARGO_TARGET_DIR"] += "-" + str(abs(hash(os.path.realpath(repo))) % 100000)
    env.pop("RUSTFLAGS", None)
    return env


def build(repo=None):
    repo = repo or sut.REPO
    os.makedirs(sut.BUILD_ROOT, exist_ok=True)
    lock = open(os.path.join(sut.BUILD_ROOT, "pure.lock"), "w")
    fcntl.flock(lock, fcntl.LOCK_EX)
    try:
        _prepare(repo)
        env = _env(repo)
        p = subprocess.run(["cargo", "build", "--offline"], cwd=PURE, env=env,
                           stdout=subprocess.PIPE, stderr=subprocess.STDOUT, text=True)
        if p.returncode != 0:
            raise PureError(p.stdout[-4000:])
        return os.path.join(env["CARGO_TARGET_DIR"], "debug", "sirc-pure")
    finally:
        fcntl.flock(lock, fcntl.LOCK_UN)
        lock.close()


def run(binary, mode, seed=1, size=5, nrandom=10000, timeout=1200):
    p = subprocess.run([binary, mode, str(seed), str(size), str(nrandom)], stdout=subprocess.PIPE,
                       stderr=subprocess.PIPE, text=True, timeout=timeout)
    if p.returncode != 0:
        raise PureError("harness exit %s: %s" % (p.returncode, p.stderr[-2000:]))
    return json.loads(p.stdout.strip().splitlines()[-1])


def run_miri(mode, seed=1, size=3, nrandom=200, repo=None, timeout=1500):
    """same harness under the Miri interpreter (UB / panic detector); returns (result|None, note)"""
    repo = repo or sut.REPO
    _prepare(repo)
    env = _env(repo, miri=True)
    env["MIRIFLAGS"] = "-Zmiri-disable-isolation"
    try:
        p = subprocess.run(["cargo", "+nightly", "miri", "run", "--offline", "--", mode, str(seed),
                            str(size), str(nrandom)], cwd=PURE, env=env, stdout=subprocess.PIPE,
                           stderr=subprocess.PIPE, text=True, timeout=timeout)
    except subprocess.TimeoutExpired:
        return None, "miri timeout"
    if p.returncode != 0:
        ub = "Undefined Behavior" in p.stderr
        return None, ("miri UB: " if ub else "miri failed: ") + p.stderr[-1500:]
    try:
        return json.loads(p.stdout.strip().splitlines()[-1]), "ok"
    except Exception as e:  # noqa
        return None, "miri output unparsable: %r" % (p.stdout[-500:],)
