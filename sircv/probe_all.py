"""run every recorded reproducer and print the signatures it produces (monitor validation aid)"""
import json, sys
from . import sut, runner
from .props import common
def main():
    b, hooks = sut.build()
    data = json.load(open(runner.KNOWN))
    bad = 0
    for e in data["findings"]:
        sc = e.get("reproducer")
        if not sc or sc.get("engine") != "e1":
            continue
        viol, note = common.run_scenario(b, hooks, sc)
        sigs = [v["signature"] for v in viol]
        hit = e["signature"] in sigs
        print("%-4s %-6s %-5s %s -> %s %s" % (e["property"], e["status"], "HIT" if hit else "miss", e["signature"], sigs[:4], note or ""))
main()
