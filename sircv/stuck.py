"""A session whose handler is stuck behind its own socket (the client stopped reading while it is owed megabytes
of replies) and then ends: by KILL, by the peer closing, by a reset.  The window between "the server decides the
session is over" and "the session's task really ends" is wide open here, so whatever is cleaned up twice, or on
behalf of the wrong connection, shows: the nickname's next owner must stay intact (C02) and nothing but the ended
user's own traces may change (C06)."""
import random
import threading
import time

from . import invariants, sut, wire

ENDINGS = ["kill-then-close", "kill-then-rst", "close", "rst", "contended"]


def _names(c, chan):
    c.send("NAMES " + chan)
    got = set()
    for m in c.read_until(lambda m: m.verb == "366", 8.0):
        if m.verb == "353":
            got |= set(m.params[-1].split())
    return got


def run_contended(args):
    """sessions end (QUIT, close, reset, KILL) while other connections keep the state lock busy with OPER password checks:
    the clean-up has to wait for the lock, not to be skipped"""
    import threading
    binary, hooks, seed, ending = args
    out = dict(findings=[], inconclusive=None, events=0, cls=("contended", "ok"), ending=ending)
    cfg = dict(operators=[{"name": "root", "password": sut.password_hash(binary, "rootpw")}])
    cs = []
    try:
        with sut.Server(binary, cfg, hooks=hooks) as srv:
            def cl(name):
                c = wire.Client(srv.port, name=name, timeout=15.0)
                c.keep_transcript = False
                cs.append(c)
                return c
            obs, o = cl("obs"), cl("o")
            obs.register("watch", "watch")
            o.register("olga", "olga")
            o.send("OPER root rootpw")
            o.ping("op")
            obs.send("JOIN #cd")
            obs.ping("j")
            vics = []
            for i, how in enumerate(["QUIT", "close", "rst", "KILL", "QUIT", "close"]):
                v = cl("v%d" % i)
                v.register("cv%d" % i, "cv")
                v.send("JOIN #cd,#own%d" % i)
                v.ping("j")
                vics.append((v, "cv%d" % i, how))
            busy = [cl("b%d" % i) for i in range(4)]
            for i, b in enumerate(busy):
                b.register("cb%d" % i, "cb")
            stop = []

            def hammer(c):
                try:
                    while not stop:
                        c.send_raw(b"OPER root not-the-password\r\n" * 10 + b"PING h\r\n")
                        c.read_until(lambda m: m.verb == "PONG", 30.0)
                except (wire.Closed, wire.Timeout, OSError):
                    pass
            ths = [threading.Thread(target=hammer, args=(b,), daemon=True) for b in busy]
            for t in ths:
                t.start()
            time.sleep(0.05)
            for v, nick, how in vics:
                if how == "QUIT":
                    v.send("QUIT :contended")
                elif how == "close":
                    v.close()
                elif how == "rst":
                    v.close_rst()
                else:
                    o.send("KILL %s :contended" % nick)
                time.sleep(0.03)
            time.sleep(0.4)
            stop.append(1)
            for t in ths:
                t.join(35.0)
            time.sleep(0.3)
            obs.send("ISON " + " ".join(n for _, n, _ in vics))
            il = obs.ping("is", 15.0)
            left = " ".join(m.params[-1] for m in il if m.verb == "303").split()
            names = _names(obs, "#cd")
            out["events"] += len(il) + len(names)
            if left:
                out["findings"].append(("stuck:contended-ghost", "sessions that ended (%s) while the state lock was busy are still "
                                        "registered: %s" % ({n: h for _, n, h in vics if n in left}, left)))
            ghosts = sorted(n for n in names if n.lstrip("~&@%+").startswith("cv"))
            if ghosts:
                out["findings"].append(("stuck:contended-ghost-member", "#cd still lists %s after their sessions ended" % ghosts))
            if hooks:
                s_ = srv.snap()
                for inv_id, detail in invariants.check(s_):
                    if inv_id != "I9":
                        out["findings"].append(("stuck:inv:" + inv_id, "[contended] " + detail))
                if any(k.startswith("#own") for k in s_["channels"]):
                    out["findings"].append(("stuck:contended-ghost-channel", "channels of ended sessions still exist: %s"
                                            % sorted(k for k in s_["channels"] if k.startswith("#own"))))
    except (wire.Closed, wire.Timeout, OSError, RuntimeError) as ex:
        out["inconclusive"] = "contended endings: %r" % (ex,)
    finally:
        for c in cs:
            try:
                c.close()
            except OSError:
                pass
    return out


def run_case(args):
    binary, hooks, seed, ending = args
    if ending == "contended":
        return run_contended(args)
    rng = random.Random(seed)
    out = dict(findings=[], inconclusive=None, events=0, cls=None, ending=ending)

    def bad(sig, detail):
        out["findings"].append(("stuck:" + sig, "[%s] %s" % (ending, detail)))

    cfg = dict(operators=[{"name": "root", "password": sut.password_hash(binary, "rootpw")}])
    cs = []
    try:
        with sut.Server(binary, cfg, hooks=hooks) as srv:
            def cl(name, **kw):
                c = wire.Client(srv.port, name=name, timeout=10.0, **kw)
                c.keep_transcript = False
                cs.append(c)
                return c
            a, b, o = cl("a"), cl("b"), cl("o")
            a.register("anna", "anna")
            b.register("bert", "bert")
            o.register("olga", "olga")
            o.send("OPER root rootpw")
            if not any(m.verb == "381" for m in o.ping("op")):
                out["inconclusive"] = "OPER failed"
                return out
            a.send("JOIN #st")
            a.ping("j")
            b.send("JOIN #st")
            b.ping("j")
            a.send("MODE #st +v bert")
            a.ping("m")
            v = cl("v", rcvbuf=4096)
            v.register("vic", "victim")
            v.send("JOIN #st,#solo")
            v.ping("j")
            if rng.random() < 0.5:
                a.send("MODE #st +o vic")
                a.ping("m2")
            a.send("INVITE bert #solo")  # refused (not a member) or not: irrelevant, just traffic
            a.ping("i")
            for c in (a, b, o):
                c.read_available(0.05)
            # --- the victim gets stuck: replies of some ten megabytes, nobody reads them
            per = (1900 - 20) // 4
            ncmd = rng.choice([220, 300])
            burst = ("NAMES %s\r\n" % ",".join(["#st"] * per)).encode() * ncmd
            v.sock.settimeout(120.0)
            th = threading.Thread(target=lambda: _quiet_send(v, burst), daemon=True)
            th.start()
            stuck = None
            if hooks:
                last = -1
                for _ in range(60):
                    time.sleep(0.1)
                    n = srv.snap()["command_counts"].get("NAMES", 0)
                    if n == last and 0 < n < ncmd:
                        stuck = True
                        break
                    last = n
                else:
                    stuck = False
            else:
                time.sleep(1.5)
            out["cls"] = (ending, "stuck" if stuck else ("unknown" if stuck is None else "not-stuck"))
            if stuck is False:
                out["inconclusive"] = "the victim's handler did not get stuck (%d of %d commands done)" % (last, ncmd)
                return out
            # --- the ending
            n = cl("n")
            welcomed = False
            joined = False
            if ending.startswith("kill"):
                o.send("KILL vic :stuck one")
                if rng.random() < 0.6:
                    # the victim's session is over but its task is not: a second KILL finds it half gone
                    o.send("KILL vic :stuck one, again")
                try:
                    ol = o.ping("k")
                except (wire.Closed, wire.Timeout) as ex:
                    bad("killer-dropped", "the operator who KILLed the stuck session (twice) got no answer to its next PING "
                        "(%s): KILL ends exactly the named user's session" % type(ex).__name__)
                    if hooks and srv.snap()["handler_aborts"]:
                        bad("handler-abort", "a handler aborted: %s" % (srv.panics()[0][-2:],))
                    return out
                out["events"] += len(ol)
                n.send("NICK vic")
                n.send("USER claim 0 * :claimant")
                try:
                    got = n.read_until(lambda m: m.verb in ("001", "433"), 6.0)
                    welcomed = got[-1].verb == "001"
                    if welcomed:
                        joined = _join(n, "#st")  # the new owner joins while the old session's socket is still open
                except wire.Timeout:
                    pass  # the registration waits for something the stuck session holds: allowed, resolved below
                except wire.Closed:
                    bad("claimant-closed", "the connection claiming the killed nickname was closed")
                    return out
            if ending.endswith("rst"):
                v.close_rst()
            else:
                v.close()
            th.join(5.0)
            # --- the nickname is free (once) after the old session is really over
            if not welcomed:
                deadline = time.monotonic() + 8.0
                if not ending.startswith("kill"):
                    n.send("USER claim 0 * :claimant")
                while time.monotonic() < deadline and not welcomed:
                    n.send("NICK vic")
                    try:
                        got = n.read_until(lambda m: m.verb in ("001", "433"), 3.0)
                        welcomed = got[-1].verb == "001"
                    except wire.Timeout:
                        pass
                    if not welcomed:
                        time.sleep(0.2)
                if not welcomed:
                    bad("nick-never-freed", "the stuck session's socket was closed 8 s ago and its nickname is still refused")
                    return out
            try:
                n.read_until(lambda m: m.verb == "221", 5.0)
            except (wire.Timeout, wire.Closed):
                pass
            if not joined:
                joined = _join(n, "#st")
            # let the old session's task finish whatever it still does
            if hooks:
                deadline = time.monotonic() + 6.0
                while time.monotonic() < deadline and srv.snap()["conns_count"] > 4:
                    time.sleep(0.02)
            else:
                time.sleep(1.0)
            time.sleep(0.15)
            # --- the new owner is intact
            try:
                pl = n.ping("alive")
                if any(m.verb == "451" for m in pl):
                    bad("claimant-gated", "the nickname's new owner is answered 451 after the old session ended")
            except (wire.Closed, wire.Timeout) as ex:
                bad("claimant-lost", "the nickname's new owner got no answer to PING (%s)" % type(ex).__name__)
                return out
            a.send("ISON vic anna")
            il = a.ping("is")
            ison = " ".join(m.params[-1] for m in il if m.verb == "303").split()
            if "vic" not in ison:
                bad("claimant-erased", "the connection that registered the freed nickname is welcomed and alive, but ISON "
                    "no longer lists it (%s): the old session's clean-up removed the new owner" % ison)
            a.send("WHOIS vic")
            wl = a.read_until(lambda m: m.verb in ("318",), 8.0)
            who = [m.params[2] for m in wl if m.verb == "311"]
            if who and who != ["~claim"]:
                bad("claimant-identity", "WHOIS vic shows %s" % who)
            a.send("PRIVMSG vic :to the new owner")
            a.ping("pm")
            try:
                n.read_until(lambda m: m.verb == "PRIVMSG" and m.params[-1:] == ["to the new owner"], 4.0)
            except (wire.Timeout, wire.Closed):
                if "vic" in ison:
                    bad("claimant-deaf", "a message to the nickname did not reach its new owner")
            # --- nothing else changed
            names = _names(a, "#st")
            want = {"~anna", "+bert"}
            if joined and "vic" not in names and "vic" in ison:
                bad("claimant-membership-erased", "the nickname's new owner joined #st (its JOIN was confirmed) and never left, "
                    "but NAMES #st is %s" % sorted(names))
            if "@vic" in names or "+vic" in names or "~vic" in names:
                bad("claimant-inherited-rank", "the nickname's new owner joined #st as a plain member, NAMES shows %s"
                    % sorted(x for x in names if x.endswith("vic")))
            in_names = "vic" in names
            names.discard("vic")
            if names - {"@vic", "+vic", "~vic"} != want:
                bad("bystanders-changed", "NAMES #st is %s, expected %s (the ended user gone, everybody else as before)"
                    % (sorted(names), sorted(want)))
            if joined and "vic" in ison:
                a.send("WHO #st")
                wl2 = a.read_until(lambda m: m.verb == "315", 8.0)
                whoed = {m.params[5] for m in wl2 if m.verb == "352" and len(m.params) > 5}
                chans = " ".join(m.params[-1] for m in wl if m.verb == "319").split()
                views = (in_names, "vic" in whoed, "#st" in [c.lstrip("~&@%+") for c in chans])
                out["events"] += len(wl2)
                if len(set(views)) != 1:
                    bad("claimant-views-disagree", "the new owner of the nickname on #st: NAMES %s, WHO %s, WHOIS(before) %s"
                        % views)
            a.send("LIST #solo")
            ll = a.read_until(lambda m: m.verb == "323", 8.0)
            if any(m.verb == "322" for m in ll):
                bad("ghost-channel", "#solo still exists after its only member's session ended")
            out["events"] += len(il) + len(wl) + len(ll) + 3
            if hooks:
                s = srv.snap()
                if s["handler_aborts"]:
                    bad("handler-abort", "a handler aborted: %s" % (srv.panics()[0][-2:],))
                for inv_id, detail in invariants.check(s):
                    if inv_id != "I9":
                        bad("inv:" + inv_id, detail)
                if set(s["users"]) != {"anna", "bert", "olga", "vic"}:
                    bad("users", "registered users are %s" % sorted(s["users"]))
                if s["conns_count"] != 4:
                    bad("conns", "conns_count is %d with 4 open connections" % s["conns_count"])
    except (wire.Closed, wire.Timeout, OSError, RuntimeError) as ex:
        out["inconclusive"] = "stuck-session case %s: %r" % (ending, ex)
    finally:
        for c in cs:
            try:
                c.close()
            except OSError:
                pass
    return out


def _join(c, chan):
    c.send("JOIN " + chan)
    try:
        got = c.read_until(lambda m: m.verb in ("366", "403", "405", "471", "473", "474", "475", "451"), 5.0)
        return got[-1].verb == "366"
    except (wire.Timeout, wire.Closed):
        return False


def _quiet_send(c, data):
    try:
        c.send_raw(data)
    except (OSError, wire.Closed):
        pass
