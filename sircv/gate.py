"""E4: registration gate explorer (C03) and nickname-ownership interleaving explorer (C02)."""
import itertools
import json
import random
import time

from . import glob, sut, wire

GATED = ["PING tok", "PONG tok", "OPER root rootpw", "JOIN #o", "PART #o", "TOPIC #o :hack", "NAMES #o",
         "LIST", "INVITE obs #o", "KICK #o obs", "MOTD", "VERSION", "ADMIN", "CONNECT a.b", "LUSERS", "TIME",
         "STATS u", "LINKS", "HELP", "INFO", "MODE obs", "MODE #o +m", "PRIVMSG obs :psst", "PRIVMSG #o :psst",
         "NOTICE obs :psst", "WHO obs", "WHO #o", "WHOIS obs", "WHOWAS obs", "KILL obs :x", "REHASH", "RESTART",
         "SQUIT irc.verif.test :x", "AWAY :gone", "USERHOST obs", "WALLOPS :x", "ISON obs", "DIE"]

CONFIGS = {
    # name -> (server password, configured users {name: (password, mask)})
    "open": (None, {}),
    "srvpw": ("srvpw", {}),
    "users": (None, {"cfgu": (None, None), "cfgp": ("userpw", None), "cfgm": (None, "*!*@127.0.0.1"),
                     "cfgx": (None, "*!*@10.*"), "cfgpm": ("userpw", "*!~cfgpm@127.*"), "cfgq": ("otherpw", None),
                     # names are compared as written: capitals in a configured name are nothing special
                     "CfgCap": ("cappw", None), "CfgMask": (None, "*!*@10.*"),
                     "cfgh": (None, "*!*@127.0.0.2")}),
    "srvpw+users": ("srvpw", {"cfgu": (None, None), "cfgp": ("userpw", None), "cfgx": ("userpw", "*!*@10.*"),
                              "cfgm": (None, "gate*!*@*"), "cfgq": ("otherpw", None), "CfgCap": ("cappw", None),
                              "CfgMask": (None, "*!*@10.*"), "cfgh": ("userpw", "*!*@127.0.0.2")}),
    # "exactly that password": a long one, told apart from others by its last characters only
    "longpw": ("s" * 64 + "-and-a-tail-that-counts", {}),
}


def server_cfg(binary, name):
    spw, users = CONFIGS[name]
    return dict(password=sut.password_hash(binary, spw) if spw else None,
                # the documented `nick` of a predefined user is deliberately different from its `name`: users are
                # recognised by the name given with USER
                users=[dict(name=n, nick="nk" + n, password=sut.password_hash(binary, p) if p else None, mask=m)
                       for n, (p, m) in users.items()],
                operators=[dict(name="root", password=sut.password_hash(binary, "rootpw"))])


class Conn:
    """one connection with the 421-marker barrier"""

    def __init__(self, srv, name, bind=None):
        self.c = wire.Client(srv.port, name=name, timeout=8.0, bind=bind)
        self.c.keep_transcript = False
        self.n = 0
        self.closed = None
        self.welcomed = None  # nick under which 001 was received
        self.sent = []

    def cmd(self, line, timeout=8.0):
        """send one line, then a marker; returns the replies (without the marker's 421)"""
        self.n += 1
        tag = "VSYNC%d" % self.n
        self.sent.append(line)
        self.c.send(line)
        self.c.send(tag)
        try:
            lines = self.c.read_until(lambda m: m.verb == "421" and tag in m.params, timeout)[:-1]
        except wire.Closed as ex:
            self.closed = ex.kind
            lines = ex.lines
        for m in lines:
            if m.verb == "001":
                self.welcomed = m.params[0]
        return lines

    def close(self):
        self.c.close()
        if self.closed is None:
            self.closed = "client"


# ------------------------------------------------------------------ C03: reference automaton
class Auto:
    def __init__(self, cfgname, taken):
        self.spw, self.users = CONFIGS[cfgname]
        self.taken = taken
        self.nick = None
        self.user = None
        self.pw = None
        self.cap = False
        self.registered = False
        self.closed = False
        self.mask_refused = False
        self.host = "127.0.0.1"

    def step(self, line):
        """-> expectation dict: kind in {gated, welcome, refuse464, no-completion, 433, 462, cap, 421, quit}"""
        if line == "@rival":
            # another connection registers the nickname this one has claimed but not yet registered
            if self.nick is not None and not self.registered:
                self.taken = set(self.taken) | {self.nick}
                return {"kind": "rival", "nick": self.nick}
            return {"kind": "rival", "nick": None}
        verb = line.split()[0].upper()
        args = line.split()[1:]
        if verb not in ("CAP", "PASS", "NICK", "USER", "AUTHENTICATE", "QUIT"):
            return {"kind": "gated"} if not self.registered else {"kind": "any"}
        if verb == "QUIT":
            self.closed = True
            return {"kind": "quit"}
        if verb == "AUTHENTICATE":
            return {"kind": "421"}
        if verb == "CAP":
            sub = args[0].upper()
            if sub in ("LS", "REQ"):
                self.cap = True
                return {"kind": "cap"}
            if sub == "LIST":
                return {"kind": "cap"}
            self.cap = False
            if self.registered:
                return {"kind": "any"}
            return self.complete()
        if self.registered:
            return {"kind": "462"} if verb in ("PASS", "USER") else {"kind": "any"}
        if verb == "PASS":
            rest = line.split(" ", 1)[1] if " " in line else ""
            # a trailing parameter keeps its blanks: "secret " is not "secret"
            self.pw = rest[1:] if rest.startswith(":") else rest.split()[0]
        elif verb == "NICK":
            if args[0] in self.taken:
                return {"kind": "433"}
            self.nick = args[0]
        elif verb == "USER":
            self.user = args[0]
        return self.complete()

    def complete(self):
        if self.nick is None or self.user is None or self.cap:
            return {"kind": "no-completion"}
        if self.nick in self.taken:
            # the claimed nickname was registered by somebody else meanwhile: refused, still unregistered
            cu = self.users.get(self.user)
            source = "%s!~%s@%s" % (self.nick, self.user, self.host)
            if cu is not None and cu[1] is not None and not glob.match(cu[1], source):
                return {"kind": "no-completion", "why": "mask"}
            need = cu[0] if (cu is not None and cu[0] is not None) else self.spw
            if need is not None and self.pw != need:
                self.closed = True
                return {"kind": "refuse464"}
            return {"kind": "433", "why": "late"}
        cu = self.users.get(self.user)
        source = "%s!~%s@%s" % (self.nick, self.user, self.host)
        if cu is not None and cu[1] is not None and not glob.match(cu[1], source):
            self.mask_refused = True
            return {"kind": "no-completion", "why": "mask"}
        need = cu[0] if (cu is not None and cu[0] is not None) else self.spw
        if need is not None and self.pw != need:
            self.closed = True
            return {"kind": "refuse464"}
        self.registered = True
        return {"kind": "welcome"}


def gate_alphabet(cfgname, reduced):
    spw, users = CONFIGS[cfgname]
    a = ["NICK gate1", "NICK taken", "USER plain 0 * :P", "CAP LS 302", "CAP END", "PRIVMSG obs :psst",
         "JOIN #o", "@rival"]
    if spw:
        a += ["PASS " + spw, "PASS wrong"]
        if len(spw) > 64:
            a += ["PASS " + spw[:64] + "-but-another-tail", "PASS " + spw[:64]]
    else:
        a += ["PASS whatever"]
    if users:
        a += ["USER cfgp 0 * :C", "USER cfgx 0 * :C", "USER cfgm 0 * :C", "PASS userpw"]
    if not reduced:
        a += ["CAP REQ :multi-prefix", "CAP REQ :bogus", "CAP LIST", "AUTHENTICATE PLAIN", "QUIT", "MODE #o +m",
              "NICK gate2", "WHO #o"]
        if users:
            a += ["USER cfgu 0 * :C"] + (["USER cfgpm 0 * :C"] if "cfgpm" in users else [])
    return a


class GateRun:
    def __init__(self, binary, hooks, cfgname, seed):
        self.binary = binary
        self.hooks = hooks
        self.cfgname = cfgname
        self.r = random.Random(seed)
        self.findings = []
        self.cases = 0
        self.classes = set()
        self.samples = []
        self.commands = 0
        self.replays = []
        self.current = []

    def bad(self, sig, detail):
        self.findings.append((sig, "[config %s] %s" % (self.cfgname, detail)))
        self.replays.append({"config": self.cfgname, "sequence": list(self.current)})

    def run(self, seqs):
        srv = sut.Server(self.binary, server_cfg(self.binary, self.cfgname), hooks=self.hooks)
        with srv:
            spw = CONFIGS[self.cfgname][0]
            obs = wire.Client(srv.port, name="obs")
            obs.register("obs", "obs", password=spw)
            obs.send("JOIN #o")
            obs.ping("x")
            tk = wire.Client(srv.port, name="taken")
            tk.register("taken", "tk", password=spw)
            tk.ping("x")
            base = self.state(srv)
            for seq in seqs:
                self.one(srv, obs, tk, seq, base)
                if len(self.findings) > 20:
                    break
            obs.close()
            tk.close()
        return self

    def state(self, srv):
        s = srv.snap()
        if s is None:
            return None
        return json.dumps({"users": s["users"], "channels": s["channels"], "wallops": s["wallops_users"]},
                          sort_keys=True)

    def one(self, srv, obs, tk, seq, base):
        self.cases += 1
        self.current = list(seq)
        au = Auto(self.cfgname, {"taken", "obs"})
        if seq and seq[0].startswith("@from:"):
            # the connection comes from another address: masks are compared with the peer's address
            au.host = seq[0][6:]
            seq = seq[1:]
        c = Conn(srv, "g", bind=au.host if au.host != "127.0.0.1" else None)
        trace = []
        rival = None
        cur_base = base
        for line in seq:
            if c.closed or au.closed:
                break
            if au.registered and line.split()[0].upper() not in ("PASS", "USER"):
                continue  # the gate is open now; what a registered user may do is not this check's business
            was_reg = au.registered
            exp = au.step(line)
            if line == "@rival":
                if exp["nick"] is not None and rival is None:
                    rival = Conn(srv, "rival")
                    spw = CONFIGS[self.cfgname][0]
                    if spw:
                        rival.cmd("PASS " + spw)
                    rival.cmd("NICK " + exp["nick"])
                    rl = rival.cmd("USER rival 0 * :R")
                    if rival.welcomed != exp["nick"]:
                        self.bad("gate:rival-refused", "sequence %s: a second connection could not register the nick %s "
                                 "that the first had only claimed: %s" % (list(seq), exp["nick"], [m.raw for m in rl][:2]))
                        break
                    cur_base = self.state(srv)
                trace.append((line, []))
                continue
            lines = c.cmd(line)
            self.commands += 1
            codes = [m.verb for m in lines]
            trace.append((line, codes[:6]))
            k = exp["kind"]
            self.classes.add((k, line.split()[0].upper(), was_reg, au.nick is not None, au.user is not None,
                              au.pw is not None, au.cap))
            sig = None
            if k == "gated":
                if codes != ["451"]:
                    sig = "gate:not-451|" + line.split()[0].upper()
                elif self.hooks and self.state(srv) != cur_base:
                    sig = "gate:state-changed|" + line.split()[0].upper()
            elif k == "welcome":
                if "001" not in codes or c.closed:
                    sig = "gate:no-welcome"
            elif k == "refuse464":
                # "a wrong or missing password closes the connection and creates no user"; the 464 line itself may be
                # lost to the reset that follows the close (our marker is still unread on the server side)
                if "001" in codes:
                    sig = "gate:welcome-despite-wrong-password"
                else:
                    if not c.closed:
                        rest, kind = c.c.read_to_eof(3.0)
                        if kind is None:
                            sig = "gate:no-464" if "464" not in codes else "gate:464-not-closed"
                        c.closed = kind or c.closed
            elif k in ("no-completion", "433", "cap", "421"):
                if "001" in codes:
                    sig = "gate:welcome-too-early|" + exp.get("why", k)
                if k == "433" and "433" not in codes:
                    sig = "gate:no-433"
            elif k == "462":
                if "462" not in codes:
                    sig = "gate:no-462"
            if sig is None and not au.registered and not au.closed and c.closed and k != "quit":
                sig = "gate:closed-unexpectedly|" + line.split()[0].upper()
            if sig:
                self.bad(sig, "sequence %s: after %r got %s (closed: %s; raw: %s)"
                         % ([t[0] for t in trace], line, codes[:8], c.closed, [m.raw for m in lines][:4]))
                break
        if len(self.samples) < 4 and self.r.random() < 0.01:
            self.samples.append({"config": self.cfgname, "sequence": trace})
        # the observer must not have heard anything unless registration completed; its own copy of a
        # message to itself travels through its FIFO queue and closes the inbox of this sequence
        tag = "osync%d" % self.cases
        obs.send("PRIVMSG obs :" + tag)
        got = obs.read_until(lambda m: m.verb == "PRIVMSG" and m.params[-1:] == [tag], 8.0)[:-1]
        heard = [m.raw for m in got if not m.is_numeric and m.verb not in ("PING", "PONG")]
        if heard and not au.registered:
            self.bad("gate:revealed-to-observer", "sequence %s: observer got %s" % (list(seq), heard[:3]))
        c.close()
        if rival is not None:
            # the rival must have survived whatever the refused connection did, and its departure
            if self.hooks:
                time.sleep(0.01)
                if au.registered is False and rival.welcomed not in (srv.snap()["users"]):
                    self.bad("gate:rival-removed", "sequence %s: the user registered by another connection vanished "
                             "when the refused connection left" % (list(seq),))
            rl = rival.cmd("PING r")
            if not any(m.verb == "PONG" for m in rl):
                self.bad("gate:rival-lost", "sequence %s: the rival connection got %s" % (list(seq), [m.raw for m in rl][:2]))
            rival.close()
        # no user may remain: wait until the state is back to the base line
        if not self.hooks:
            # black-box variant: the nicknames of this sequence must be gone before the next one starts
            deadline = time.monotonic() + 5
            gone = False
            while time.monotonic() < deadline and not gone:
                obs.send("ISON gate1 gate2")
                try:
                    ls = obs.read_until(lambda m: m.verb == "303", 5.0)
                    gone = not ls[-1].params[-1].split()
                except (wire.Closed, wire.Timeout):
                    break
                if not gone:
                    time.sleep(0.003)
            if not gone:
                self.bad("gate:user-remains", "sequence %s: gate1/gate2 still registered 5 s after the connection was closed"
                         % (list(seq),))
        if self.hooks:
            deadline = time.monotonic() + 5
            while time.monotonic() < deadline:
                if self.state(srv) == base:
                    break
                time.sleep(0.002)
            else:
                s = srv.snap()
                self.bad("gate:user-remains", "sequence %s: users %s after the connection was closed"
                         % (list(seq), sorted(s["users"])))
                # repair the base line so later sequences are judged on their own
                return


def core_sequences(cfgname):
    """the deterministic cores (capability negotiation, password order/repetition/near misses, retry after a refusal):
    every run executes all of them"""
    seqs = []
    # capability negotiation cores, exhaustively: each CAP sub-command at each position relative to NICK and USER, with
    # and without the closing CAP END (any CAP LS/REQ - accepted or refused - holds registration back until CAP END)
    spw = CONFIGS[cfgname][0]
    for capsym in ("CAP LS 302", "CAP REQ :multi-prefix", "CAP REQ :bogus", "CAP LIST", "CAP REQ :multi-prefix bogus"):
        for perm in itertools.permutations([capsym, "NICK gate1", "USER plain 0 * :P"]):
            for end in ([], ["CAP END"], ["JOIN #o", "CAP END"]):
                seqs.append((["PASS " + spw] if spw else []) + list(perm) + end)
    # two capability sub-commands in a row (does the second one close what the first one opened?)
    caps2 = ("CAP LS 302", "CAP REQ :multi-prefix", "CAP REQ :bogus", "CAP LIST", "CAP END")
    for c1 in caps2[:3]:
        for c2 in caps2:
            base = (["PASS " + spw] if spw else [])
            seqs.append(base + [c1, c2, "NICK gate1", "USER plain 0 * :P"])
            seqs.append(base + [c1, "NICK gate1", c2, "USER plain 0 * :P"])
            seqs.append(base + ["NICK gate1", c1, "USER plain 0 * :P", c2])
            seqs.append(base + [c1, "NICK gate1", "USER plain 0 * :P", c2, "JOIN #o", "CAP END"])
    # password cores, exhaustively: "for every order and repetition of PASS" - two PASS commands (right/wrong in both
    # orders, twice the same) at every position before the command that completes the registration; the last one counts
    users = CONFIGS[cfgname][1]
    pws = [p_ for p_ in (spw, "userpw" if users else None, "wrong") if p_]
    # near misses: the right password followed by white space, sent as a trailing parameter
    pws += [":" + p_ + tail for p_ in (spw, "userpw" if users else None) if p_ for tail in (" ", "\t")]
    if spw and len(spw) > 64:
        pws += [spw[:64] + "-but-another-tail", spw[:64], spw + "x", spw[:-1]]
    if spw or users:
        tails = [["NICK gate1", "USER plain 0 * :P"], ["USER plain 0 * :P", "NICK gate1"]]
        if users:
            tails += [["NICK gate1", "USER cfgp 0 * :C"], ["USER cfgp 0 * :C", "NICK gate1"]]
        for p1 in pws:
            for p2 in pws:
                for tail in tails:
                    seqs.append(["PASS " + p1, "PASS " + p2] + tail)
                    seqs.append(["PASS " + p1, tail[0], "PASS " + p2, tail[1]])
                    seqs.append([tail[0], "PASS " + p1, "PASS " + p2, tail[1]])
                    seqs.append(["CAP LS 302"] + tail + ["PASS " + p1, "PASS " + p2, "CAP END"])
    # a refused attempt is followed by another one on the same connection: the nickname was taken at once (433), or
    # it was taken by somebody else between NICK and USER (late 433) - then a free nickname must be welcomed, with the
    # password given once at the start still in force
    users = CONFIGS[cfgname][1]
    base = (["PASS " + spw] if spw else [])
    for ulast in (["USER plain 0 * :P"] + (["USER cfgp 0 * :C"] if users else [])):
        pw = (["PASS userpw"] if "cfgp" in ulast else base)
        seqs.append(pw + ["NICK gate1", "@rival", ulast, "NICK gate2"])
        seqs.append(pw + ["NICK gate1", "@rival", ulast, "NICK gate2", "JOIN #o"])
        seqs.append(pw + ["NICK taken", ulast, "NICK gate2"])
        seqs.append(pw + [ulast, "NICK taken", "NICK taken", "NICK gate2"])
        seqs.append(pw + ["CAP LS 302", "NICK gate1", "@rival", ulast, "CAP END", "NICK gate2"])
    # configured names with capital letters, and the same names in another case (which are nobody's)
    if users:
        for pw in (None, "wrong", "cappw", spw, "userpw"):
            head = ["PASS " + pw] if pw else []
            for name in ("CfgCap", "cfgcap", "CFGCAP", "CfgMask", "cfgmask"):
                seqs.append(head + ["NICK gate1", "USER %s 0 * :C" % name])
                seqs.append(head + ["USER %s 0 * :C" % name, "NICK gate1", "JOIN #o"])
            seqs.append(head + ["CAP LS 302", "NICK gate1", "USER CfgCap 0 * :C", "CAP END"])
    # masks are compared with the address the client connects from (another loopback address is another host)
    if users:
        for frm in ("127.0.0.1", "127.0.0.2", "127.0.0.3"):
            for name in ("cfgh", "cfgm", "cfgx", "cfgpm", "plain"):
                for pw in (None, "userpw", spw):
                    seqs.append((["@from:" + frm] if frm != "127.0.0.1" else []) + (["PASS " + pw] if pw else [])
                                + ["NICK gate1", "USER %s 0 * :C" % name, "JOIN #o"])
    # the connection gives up with QUIT (one of the six commands it may use): whoever owns the nickname it once claimed
    # is not concerned
    for pre in ([], ["PASS wrong"], ["CAP LS 302"]):
        seqs.append(base + pre + ["NICK gate1", "@rival", "QUIT"])
        seqs.append(base + pre + ["NICK gate1", "@rival", "USER plain 0 * :P", "QUIT"])
        seqs.append(base + pre + ["NICK taken", "QUIT"])
        seqs.append(base + pre + ["USER plain 0 * :P", "NICK taken", "QUIT :bye"])
        seqs.append(base + pre + ["NICK gate1", "@rival", "QUIT :bye bye", "PRIVMSG obs :after quit"])
    # ... and the retry names another user: a password that was right for the first USER (checked, then refused with
    # the late 433) is not thereby right for the second one
    if users:
        names = [("plain", "P"), ("cfgp", "C"), ("cfgq", "C"), ("cfgu", "C"), ("cfgm", "C")]
        for pw in [p_ for p_ in (spw, "userpw", "otherpw") if p_] + [None]:
            for u1, r1 in names:
                for u2, r2 in names:
                    if u1 == u2:
                        continue
                    head = (["PASS " + pw] if pw else [])
                    seqs.append(head + ["NICK gate1", "@rival", "USER %s 0 * :%s" % (u1, r1), "USER %s 0 * :%s" % (u2, r2),
                                        "NICK gate2"])
        seqs.append(["PASS userpw", "NICK gate1", "@rival", "USER cfgp 0 * :C", "NICK gate2", "USER cfgq 0 * :C"])
        seqs.append(["PASS userpw", "NICK gate1", "@rival", "USER cfgp 0 * :C", "PASS otherpw", "USER cfgq 0 * :C", "NICK gate2"])
        seqs.append(["PASS userpw", "NICK gate1", "@rival", "USER cfgp 0 * :C", "PASS wrong", "NICK gate2"])
    return seqs


def gate_sequences(cfgname, rng, quick):
    alpha = gate_alphabet(cfgname, reduced=True)
    seqs = []
    maxlen = 3 if quick else 4
    for n in range(1, maxlen + 1):
        seqs += [list(t) for t in itertools.product(alpha, repeat=n)]
    full = gate_alphabet(cfgname, reduced=False) + GATED
    for _ in range(300 if quick else 3000):
        n = rng.randrange(2, 9)
        seqs.append([rng.choice(full) for _ in range(n)])
    seqs += core_sequences(cfgname)
    # every gated verb once on a fresh connection and once just before completion
    for g in GATED:
        seqs.append([g])
        seqs.append(["NICK gate1", g, "USER plain 0 * :P"])
    return seqs, len(alpha), maxlen


def core_worker(args):
    """the deterministic cores only (C20's view of predefined users and passwords)"""
    binary, hooks, cfgname, seed = args
    g = GateRun(binary, hooks, cfgname, seed)
    try:
        g.run(core_sequences(cfgname))
        inc = None
    except (wire.Closed, wire.Timeout, OSError, RuntimeError) as ex:
        inc = "gate cores %s: %r" % (cfgname, ex)
    return dict(findings=g.findings, cases=g.cases, inconclusive=inc, replays=g.replays)


def gate_worker(args):
    binary, hooks, cfgname, seed, quick, shard, nshards = args
    rng = random.Random(seed)
    seqs, na, maxlen = gate_sequences(cfgname, rng, quick)
    seqs = seqs[shard::nshards]
    g = GateRun(binary, hooks, cfgname, seed)
    try:
        g.run(seqs)
        inc = None
    except (wire.Closed, wire.Timeout, OSError, RuntimeError) as ex:
        inc = "gate %s: %r" % (cfgname, ex)
    return dict(findings=g.findings, cases=g.cases, classes=[list(map(str, c)) for c in g.classes],
                samples=g.samples, commands=g.commands, inconclusive=inc, alphabet=na, maxlen=maxlen,
                replays=g.replays)


# ------------------------------------------------------------------ C02: ownership under interleavings
SCRIPTS = {
    "nu": ["NICK x", "USER u 0 * :r", "ACT", "CLOSE"],
    "un": ["USER u 0 * :r", "NICK x", "ACT", "CLOSE"],
    "nuq": ["NICK x", "USER u 0 * :r", "ACT", "QUIT"],
    "nuy": ["NICK x", "USER u 0 * :r", "NICK y", "ACT", "CLOSE"],
    "ynx": ["NICK y", "USER u 0 * :r", "NICK x", "ACT", "CLOSE"],
    "nc": ["NICK x", "CLOSE"],
    "nuj": ["NICK x", "USER u 0 * :r", "JOIN", "ACT", "CLOSE"],
    "capn": ["CAP LS 302", "NICK x", "USER u 0 * :r", "CAP END", "ACT", "CLOSE"],
    "pn": ["PASS good", "NICK x", "USER u 0 * :r", "ACT", "CLOSE"],
    "bn": ["PASS bad", "NICK x", "USER u 0 * :r", "ACT", "CLOSE"],
    "np": ["NICK x", "USER u 0 * :r", "PASS good", "ACT", "CLOSE"],
    "unp": ["USER u 0 * :r", "NICK x", "PASS good", "ACT", "CLOSE"],
    "n-": ["NICK x", "USER u 0 * :r", "ACT", "ACT", "CLOSE"],
}


def interleavings(lens):
    """all merges of sequences with the given lengths, as tuples of sequence indexes"""
    total = sum(lens)

    def rec(rem, acc):
        if len(acc) == total:
            yield tuple(acc)
            return
        for i, r in enumerate(rem):
            if r:
                rem[i] -= 1
                acc.append(i)
                yield from rec(rem, acc)
                acc.pop()
                rem[i] += 1
    yield from rec(list(lens), [])


GATE_PROBES = ["ISON obs", "OPER root rootpw", "MODE x +i", "AWAY :gone", "JOIN #own", "PRIVMSG obs :imp",
               "MODE y +w", "TOPIC #own :t", "WALLOPS :w", "KILL obs :r", "PART #own", "WHOIS x"]


class OwnRun:
    def __init__(self, binary, hooks, with_password, seed):
        self.binary = binary
        self.hooks = hooks
        self.pw = with_password
        self.r = random.Random(seed)
        self.findings = []
        self.cases = 0
        self.steps = 0
        self.classes = set()
        self.samples = []
        self.replays = []
        self.current = ((), ())
        self.probe_no = 0

    def bad(self, sig, detail):
        self.findings.append((sig, "[server password %s] %s" % ("on" if self.pw else "off", detail)))
        self.replays.append({"scripts": list(self.current[0]), "schedule": list(self.current[1]), "password": bool(self.pw)})

    def run(self, jobs):
        cfg = dict(password=sut.password_hash(self.binary, "good") if self.pw else None,
                   operators=[dict(name="root", password=sut.password_hash(self.binary, "rootpw"))])
        with sut.Server(self.binary, cfg, hooks=self.hooks) as srv:
            obs = wire.Client(srv.port, name="obs")
            obs.register("obs", "obs", password="good" if self.pw else None)
            obs.send("JOIN #own")
            obs.ping("x")
            for names, order in jobs:
                self.one(srv, obs, names, order)
                if len(self.findings) > 20:
                    break
            obs.close()
        return self

    def one(self, srv, obs, names, order):
        self.cases += 1
        self.current = (names, order)
        scripts = [list(SCRIPTS[n]) for n in names]
        conns = [Conn(srv, "c%d" % i) for i in range(len(scripts))]
        pos = [0] * len(scripts)
        owner = {}  # nick -> connection index (from observed acceptances)
        mynick = [None] * len(scripts)
        trace = []
        ok = True
        for step, i in enumerate(order):
            if not ok:
                break
            c = conns[i]
            sym = scripts[i][pos[i]]
            pos[i] += 1
            if c.closed:
                continue
            self.steps += 1
            trace.append((i, sym))
            before_nick = mynick[i]
            if sym == "CLOSE":
                c.close()
                gone = mynick[i]
                mynick[i] = None
                if gone is not None and owner.get(gone) == i:
                    del owner[gone]
                ok = self.settle(srv, obs, conns, owner, mynick, trace, wait_gone=gone, closed_idx=i)
                continue
            if sym == "ACT":
                line = "PRIVMSG obs :from-%d-%d" % (i, step)
            elif sym == "JOIN":
                line = "JOIN #own"
            elif sym == "QUIT":
                line = "QUIT"
            else:
                line = sym
            lines = c.cmd(line)
            codes = [m.verb for m in lines]
            # acceptance events
            if c.welcomed is not None and mynick[i] is None and "001" in codes:
                mynick[i] = c.welcomed
                if c.welcomed in owner and owner[c.welcomed] != i:
                    self.bad("own:two-owners", "trace %s: connection %d welcomed as %s which connection %d owns"
                             % (trace, i, c.welcomed, owner[c.welcomed]))
                    ok = False
                owner[c.welcomed] = i
            elif line.startswith("NICK ") and mynick[i] is not None:
                new = line.split()[1]
                if any(m.verb == "NICK" and m.params[:1] == [new] and (m.source or "").startswith(mynick[i] + "!")
                       for m in lines) or (not codes and new != mynick[i]):
                    pass
            if c.closed and sym != "QUIT" and "464" not in codes:
                self.bad("own:closed-unexpectedly", "trace %s: connection %d closed after %r: %s"
                         % (trace, i, line, [m.raw for m in lines][-2:]))
                ok = False
            if c.closed:
                gone = mynick[i]
                mynick[i] = None
                if gone is not None and owner.get(gone) == i:
                    del owner[gone]
                ok = ok and self.settle(srv, obs, conns, owner, mynick, trace, wait_gone=gone, closed_idx=i)
                continue
            # a registered connection's NICK change: learn the outcome from the snapshot below
            ok = ok and self.settle(srv, obs, conns, owner, mynick, trace, actor=i, line=line, codes=codes)
            self.classes.add((tuple(names), sym, before_nick is not None,
                              tuple(sorted(codes))[:4], len(owner)))
        for c in conns:
            if not c.closed:
                c.close()
        if self.hooks:
            deadline = time.monotonic() + 5
            while time.monotonic() < deadline:
                s = srv.snap()
                if set(s["users"]) == {"obs"} and s["conns_count"] == 1:
                    break
                time.sleep(0.002)
            else:
                self.bad("own:leftover", "trace %s: after closing all, users %s conns %s"
                         % (trace, sorted(s["users"]), s["conns_count"]))
        obs.read_available(0.0)
        if len(self.samples) < 4 and self.r.random() < 0.02:
            self.samples.append({"scripts": list(names), "schedule": list(order), "trace": trace})

    def settle(self, srv, obs, conns, owner, mynick, trace, actor=None, line=None, codes=None,
               wait_gone=None, closed_idx=None):
        """after every step: ownership invariants G1-G5"""
        snap = srv.snap() if self.hooks else None
        if wait_gone is not None and snap is not None:
            deadline = time.monotonic() + 5
            while wait_gone in snap["users"] and time.monotonic() < deadline:
                time.sleep(0.002)
                snap = srv.snap()
            if wait_gone in snap["users"]:
                self.bad("own:not-removed", "trace %s: %s still registered 5 s after its connection ended"
                         % (trace, wait_gone))
                return False
        elif closed_idx is not None and snap is not None:
            # an unregistered connection ended: wait until its slot is released
            deadline = time.monotonic() + 5
            want = 1 + sum(1 for c in conns if not c.closed)
            while snap["conns_count"] != want and time.monotonic() < deadline:
                time.sleep(0.002)
                snap = srv.snap()
        # learn accepted NICK changes of registered connections from the announcement
        if actor is not None and line.startswith("NICK ") and mynick[actor] is not None:
            new = line.split()[1]
            if snap is not None and new in snap["users"] and mynick[actor] not in snap["users"] \
                    and new not in owner:
                del owner[mynick[actor]]
                owner[new] = actor
                mynick[actor] = new
            elif snap is None and "433" not in codes:
                del owner[mynick[actor]]
                owner[new] = actor
                mynick[actor] = new
        if snap is not None:
            if snap["handler_aborts"]:
                self.bad("own:handler-abort", "trace %s: handler aborted" % (trace,))
                return False
            users = set(snap["users"]) - {"obs"}
            if users != set(owner):
                self.bad("own:users-vs-owners", "trace %s: registered users %s but accepted owners %s"
                         % (trace, sorted(users), sorted(owner)))
                return False
            for n, u in snap["users"].items():
                if not u["source"].startswith(n + "!"):
                    self.bad("own:identity", "trace %s: user %s has source %s" % (trace, n, u["source"]))
                    return False
        # G2: not welcomed => gated ; G3: owners alive
        for j, c in enumerate(conns):
            if c.closed:
                continue
            if mynick[j] is None:
                # a never-welcomed connection is gated for every command that could touch a registered user
                self.probe_no += 1
                probe = GATE_PROBES[self.probe_no % len(GATE_PROBES)]
                before = json.dumps(snap["users"], sort_keys=True) if snap is not None else None
                lines = c.cmd(probe)
                if c.closed:
                    if "464" not in [m.verb for m in lines] and not any(m.verb.startswith("ERROR") for m in lines):
                        self.bad("own:unregistered-probe-closed", "trace %s: connection %d closed after %r: %s"
                                 % (trace, j, probe, [m.raw for m in lines][-2:]))
                        return False
                    continue
                if [m.verb for m in lines] != ["451"]:
                    self.bad("own:unregistered-passes-gate", "trace %s: connection %d was never welcomed but %r was "
                             "answered %s" % (trace, j, probe, [m.raw for m in lines][:2]))
                    return False
                if before is not None:
                    after = json.dumps(srv.snap()["users"], sort_keys=True)
                    if after != before:
                        self.bad("own:unregistered-changed-user", "trace %s: %r from the never-welcomed connection %d "
                                 "changed a registered user" % (trace, probe, j))
                        return False
            else:
                lines = c.cmd("PING alive")
                if c.closed:
                    self.bad("own:owner-lost", "trace %s: owner %d (%s) closed by the server: %s"
                             % (trace, j, mynick[j], [m.raw for m in lines][-2:]))
                    return False
                if not any(m.verb == "PONG" for m in lines):
                    self.bad("own:owner-not-answered", "trace %s: owner %d got %s" % (trace, j, [m.raw for m in lines][:2]))
                    return False
        # G4: what the observer heard is attributable
        obs.send("PING o")
        try:
            heard = obs.read_until(lambda m: m.verb == "PONG", 5.0)[:-1]
        except (wire.Closed, wire.Timeout):
            self.bad("own:observer-lost", "trace %s" % (trace,))
            return False
        # the observer's queue and its direct replies are not ordered with each other: give the queue a moment
        heard += obs.read_available(0.002)
        for m in heard:
            if m.verb == "PRIVMSG" and m.params[-1].startswith("from-"):
                sender = int(m.params[-1].split("-")[1])
                nick = (m.source or "").split("!")[0]
                if mynick[sender] != nick or owner.get(nick) != sender:
                    # the sender may have closed right after speaking; then it owned the nick at that time
                    if not (conns[sender].closed and conns[sender].welcomed == nick):
                        self.bad("own:spoke-as-other", "trace %s: connection %d spoke as %s (owner: %s)"
                                 % (trace, sender, nick, owner.get(nick)))
                        return False
        return True


def own_jobs(rng, quick):
    names = list(SCRIPTS)
    jobs = []
    pairs = [("nu", "nu"), ("nu", "un"), ("un", "un"), ("nu", "nc"), ("nuy", "ynx"), ("nu", "nuq"),
             ("capn", "nu"), ("nuj", "nu"), ("nuy", "nu"), ("n-", "nc")]
    for p in pairs:
        lens = [len(SCRIPTS[n]) for n in p]
        allo = list(interleavings(lens))
        if quick and len(allo) > 80:
            allo = rng.sample(allo, 80)
        jobs += [(p, o) for o in allo]
    triples = [("nu", "un", "nc"), ("nu", "nu", "nu"), ("nuy", "nc", "un")]
    for t in triples:
        lens = [len(SCRIPTS[n]) for n in t]
        allo = list(interleavings(lens))
        allo = rng.sample(allo, min(len(allo), 40 if quick else 1200))
        jobs += [(t, o) for o in allo]
    return jobs


def own_jobs_pw(rng, quick):
    jobs = []
    pairs = [("pn", "pn"), ("pn", "bn"), ("bn", "pn"), ("np", "pn"), ("unp", "np"), ("pn", "nc"), ("np", "np")]
    for p in pairs:
        lens = [len(SCRIPTS[n]) for n in p]
        allo = list(interleavings(lens))
        allo = rng.sample(allo, min(len(allo), 25 if quick else 400))
        jobs += [(p, o) for o in allo]
    return jobs


def own_worker(args):
    binary, hooks, with_pw, seed, quick, shard, nshards = args
    rng = random.Random(seed)
    jobs = own_jobs_pw(rng, quick) if with_pw else own_jobs(rng, quick)
    jobs = jobs[shard::nshards]
    o = OwnRun(binary, hooks, with_pw, seed + shard)
    try:
        o.run(jobs)
        inc = None
    except (wire.Closed, wire.Timeout, OSError, RuntimeError) as ex:
        inc = "own: %r" % (ex,)
    return dict(findings=o.findings, cases=o.cases, steps=o.steps,
                classes=[repr(c) for c in o.classes], samples=o.samples, inconclusive=inc, replays=o.replays)
