"""Client side of the wire: sockets with TCP_NODELAY/TCP_QUICKACK, line framing, barriers."""
import select
import socket
import ssl
import struct
import time

from .grammar import Msg

TCP_QUICKACK = getattr(socket, "TCP_QUICKACK", 12)


class Timeout(Exception):
    pass


class Closed(Exception):
    """peer closed (EOF or RST) while we were waiting for something"""

    def __init__(self, kind, lines):
        Exception.__init__(self, kind)
        self.kind = kind
        self.lines = lines


class Client:
    def __init__(self, port, tls=False, host="127.0.0.1", timeout=10.0, name=None, rcvbuf=None, bind=None):
        self.name = name
        self.port = port
        if bind:
            # the client's own address (another loopback address: the server sees another host)
            self.sock = socket.socket(socket.AF_INET, socket.SOCK_STREAM)
            self.sock.bind((bind, 0))
            self.sock.settimeout(timeout)
            self.sock.connect((host, port))
        elif rcvbuf:
            # a small receive buffer (set before connecting) lets unread output back up into the server
            self.sock = socket.socket(socket.AF_INET, socket.SOCK_STREAM)
            self.sock.setsockopt(socket.SOL_SOCKET, socket.SO_RCVBUF, rcvbuf)
            self.sock.settimeout(timeout)
            self.sock.connect((host, port))
        else:
            self.sock = socket.create_connection((host, port), timeout=timeout)
        self.sock.setsockopt(socket.IPPROTO_TCP, socket.TCP_NODELAY, 1)
        self.local_port = self.sock.getsockname()[1]
        if tls:
            ctx = ssl.SSLContext(ssl.PROTOCOL_TLS_CLIENT)
            ctx.check_hostname = False
            ctx.verify_mode = ssl.CERT_NONE
            self.sock = ctx.wrap_socket(self.sock, server_hostname="localhost")
        self.tls = tls
        self.buf = b""
        self.eof = None  # None | 'eof' | 'rst'
        self.send_failed = False
        self.raw_log = []  # every byte chunk received (for framing checks)
        self.keep_raw = False
        self.transcript = []  # (direction, text)
        self.keep_transcript = True
        self.bad_frames = []  # framing anomalies seen in the byte stream
        self.default_timeout = timeout
        self._quickack()

    def _quickack(self):
        try:
            self.sock.setsockopt(socket.IPPROTO_TCP, TCP_QUICKACK, 1)
        except OSError:
            pass

    # ---- sending
    def send(self, line):
        if self.keep_transcript:
            self.transcript.append((">", line))
        self.send_raw((line + "\r\n").encode("utf-8", "surrogateescape"))

    def send_raw(self, data):
        try:
            self.sock.sendall(data)
        except (BrokenPipeError, ConnectionResetError, ssl.SSLError, OSError):
            # the reader finds out (data queued before the peer's close must still be read)
            self.send_failed = True

    # ---- receiving
    def _fill(self, timeout):
        """read once; returns False on timeout"""
        if self.eof:
            return True
        if self.tls and self.sock.pending():
            r = [self.sock]
        else:
            r, _, _ = select.select([self.sock], [], [], max(0.0, timeout))
        if not r:
            return False
        try:
            d = self.sock.recv(65536)
        except ssl.SSLWantReadError:
            return True
        except (ConnectionResetError, BrokenPipeError):
            self.eof = "rst"
            return True
        except (ssl.SSLError, OSError):
            self.eof = "rst"
            return True
        self._quickack()
        if not d:
            self.eof = "eof"
            return True
        if self.keep_raw:
            self.raw_log.append(d)
        self.buf += d
        return True

    def _pop_line(self):
        i = self.buf.find(b"\n")
        if i < 0:
            return None
        raw = self.buf[:i + 1]
        self.buf = self.buf[i + 1:]
        if not raw.endswith(b"\r\n"):
            self.bad_frames.append(("bare-lf", raw[:200]))
            body = raw[:-1]
        else:
            body = raw[:-2]
        if b"\r" in body:
            self.bad_frames.append(("inner-cr", raw[:200]))
        text = body.decode("utf-8", "replace")
        if self.keep_transcript:
            self.transcript.append(("<", text))
        return Msg(text)

    def read_until(self, pred, timeout=None):
        """collect messages until pred(msg) is true; returns the list including the match.
        Raises Closed(kind, lines) on EOF/RST first, Timeout on watchdog expiry."""
        timeout = self.default_timeout if timeout is None else timeout
        deadline = time.monotonic() + timeout
        out = []
        while True:
            m = self._pop_line()
            if m is not None:
                out.append(m)
                if pred(m):
                    return out
                continue
            if self.eof:
                raise Closed(self.eof, out)
            if not self._fill(deadline - time.monotonic()):
                t = Timeout("timeout; got %d lines" % len(out))
                t.lines = out
                raise t

    def read_available(self, wait=0.0):
        """everything that arrives within `wait` seconds of silence"""
        out = []
        while True:
            m = self._pop_line()
            if m is not None:
                out.append(m)
                continue
            if self.eof:
                return out
            if not self._fill(wait):
                return out

    def read_to_eof(self, timeout=None):
        timeout = self.default_timeout if timeout is None else timeout
        deadline = time.monotonic() + timeout
        out = []
        while True:
            m = self._pop_line()
            if m is not None:
                out.append(m)
                continue
            if self.eof:
                return out, self.eof
            if not self._fill(deadline - time.monotonic()):
                return out, None

    # ---- endings
    def close(self):
        try:
            self.sock.close()
        except OSError:
            pass
        if self.eof is None:
            self.eof = "closed"

    def close_rst(self):
        try:
            s = self.sock
            if self.tls:
                s = self.sock.unwrap() if False else self.sock
            s.setsockopt(socket.SOL_SOCKET, socket.SO_LINGER, struct.pack("ii", 1, 0))
        except OSError:
            pass
        self.close()

    def half_close(self):
        try:
            self.sock.shutdown(socket.SHUT_WR)
        except OSError:
            pass

    # ---- helpers
    def ping(self, token, timeout=None):
        """send PING token, read until the PONG; returns lines before the PONG"""
        self.send("PING " + token)
        lines = self.read_until(lambda m: m.verb == "PONG" and m.params and m.params[-1] == token,
                                timeout)
        return lines[:-1]

    def register(self, nick, user=None, realname="real name", password=None, caps=None,
                 timeout=None):
        """full registration; returns the welcome burst (up to and including 221) or raises"""
        if password is not None:
            self.send("PASS " + password)
        if caps is not None:
            self.send("CAP LS 302")
            if caps:
                self.send("CAP REQ :" + " ".join(caps))
        self.send("NICK " + nick)
        self.send("USER %s 0 * :%s" % (user or nick.lower(), realname))
        if caps is not None:
            self.send("CAP END")
        return self.read_until(lambda m: m.verb in ("221", "433", "464") or
                               (m.verb == "ERROR"), timeout)
