"""Seeded, collision-biased workload generator for the sequential differential engine."""
import random

from .model import RANKS, is_halfop

NICKS = ["al", "bo", "cy", "di", "ed", "fy", "root", "adm", "Al", "zoé"]
USERS = {"zoé": "zoe", "Al": "alcap", "Root": "rtcap", "al": "al", "bo": "bob", "cy": "cy", "di": "cy", "ed": "ed", "fy": "fy", "root": "rt",
         "adm": "adm"}
CHANS = ["#x", "#y", "#z", "&w", "#café", "#X"]  # "#X" and "#x" are two channels
KEYS = ["k1", "key2", "x"]
OPER_PW = {"root": "rootpw", "adm": "admpw", "far": "farpw"}
OPER_MASK = {"root": None, "adm": "*!*@127.0.0.1", "far": "*!*@10.*"}

DEFAULT_WEIGHTS = dict(
    connect=6, end=2, quit=1, join=14, part=5, kick=5, topic=4, invite=4, cmode=14, umode=4,
    nick=5, privmsg=10, notice=6, away=2, oper=2, kill=1, wallops=2, stats=1, die=0.3, squit=0.3,
    names=3, who=3, whois=3, list=2, lusers=2, ison=1, userhost=1, whowas=1, chanlist=2, cquery=1,
    cap=1.5, half=2.5, half_complete=2.5, half_end=1.5, reuser=1.5, half_probe=2.5,
)

ENDINGS = ["close", "rst", "halfclose", "midline", "badutf8"]


class Gen:
    def __init__(self, seed, world, weights=None, max_clients=5, nicks=None, chans=None,
                 hostile_masks=True, endings=None, server_password=None, multi_prefix_rate=0.3,
                 mode_weights=None, invalid_nicks=False, empty_text=0.0):
        self.r = random.Random(seed)
        self.w = world
        self.weights = dict(DEFAULT_WEIGHTS)
        if weights:
            self.weights.update(weights)
        self.max_clients = max_clients
        self.nicks = list(nicks or NICKS)
        self.chans = list(chans or CHANS) + [c["name"] for c in world.cfg.channels]
        self.hostile_masks = hostile_masks
        self.endings = endings or ENDINGS
        self.server_password = server_password
        self.mp_rate = multi_prefix_rate
        self.invalid_nicks = invalid_nicks
        self.empty_text = empty_text
        self.mode_weights = dict(zip("imtnsklbeIqaohv", [3, 3, 3, 3, 3, 3, 3, 4, 3, 3, 2, 2, 4, 3, 4]))
        if mode_weights:
            self.mode_weights.update(mode_weights)
        self.counter = 0
        self.used_nicks = []
        self.boundary_rate = 0.12

    # ------------------------------------------------------------ pools
    @property
    def m(self):
        return self.w.model

    def live(self):
        return [cid for cid, c in self.m.conn.items() if cid != 0 and c["nick"] is not None
                and cid in self.w.clients]

    def text(self):
        self.counter += 1
        base = "t%d-%d" % (self.counter, self.r.randrange(10 ** 6))
        k = self.r.random()
        if self.empty_text and self.r.random() < self.empty_text:
            return self.r.choice(["", " ", ":", "::", " : ", "a  b", ":-) x:y"])
        if k < 0.07:
            return base + self.r.choice(["  ", " ", "\t", " x ", "   "])  # blanks at the end belong to the text
        if k < 0.15:
            return base + " a:b :c"
        if k < 0.25:
            return ":" + base
        if k < 0.3:
            return base + " é日"
        return base

    def some_nick(self, present_bias=0.8):
        present = [n for n in self.m.users if n != "Mon"]
        if present and self.r.random() < present_bias:
            return self.r.choice(present)
        return self.r.choice(self.nicks + ["ghost"])

    def some_chan(self, existing_bias=0.75):
        ex = list(self.m.chans)
        if ex and self.r.random() < existing_bias:
            return self.r.choice(ex)
        if self.r.random() < 0.03:
            return "#"  # a one-character channel name: accepted by JOIN/TOPIC/MODE/..., not addressable by PRIVMSG
        return self.r.choice(self.chans)

    def mask_for(self, nick=None):
        """a mask near some identity: matching, near miss, incomplete forms"""
        r = self.r
        u = self.m.users.get(nick or self.some_nick(1.0))
        if u is None:
            n, us, h = "zed", "zed", "127.0.0.1"
        else:
            n, us, h = u.nick, u.user, u.host
        forms = [
            "%s!~%s@%s" % (n, us, h), n, "%s!*@*" % n, "*!~%s@*" % us, "*!*@%s" % h, "*!*@127.*",
            "%s@%s" % (n, h), "%s!~%s" % (n, us), "*@%s" % h, "*", "*!*@*", "?" * len(n),
            n[:-1] + "?", n[:1] + "*", "*" + n[-1:] + "!*@*", n + "x", "x" + n + "!*@*",
            "*!~%sx@*" % us, "*!*@10.*", "%s!~%s@%s*" % (n, us, h), "**%s**!*@*" % n,
            "%s!?%s@*" % (n, us), "%s!~%s@127.?.0.1" % (n, us),
            # a literal piece after '*' that overlaps itself in the text: the matcher has to back up inside the text
            "*!*@*" + h[-4:], "*" + h[-3:], "%s!*@*%s" % (n, h[3:]), "*!*@*.0.2",
            # every character for itself, case-sensitively: the same mask in another letter case is another mask
            n.swapcase() + "!*@*", n.upper(), "*!~%s@*" % us.upper(), n.capitalize() + "!~" + us + "@*",
        ]
        if any(ord(ch) > 127 for ch in n):
            # '?' stands for one character, however many bytes it takes
            one = "".join("?" if ord(ch) > 127 else ch for ch in n)
            two = "".join("??" if ord(ch) > 127 else ch for ch in n)
            forms += [one + "!*@*", two + "!*@*", one, two + "!*@*", one + "!*@*", "?" * len(n) + "!*@*",
                      "?" * len(n.encode()) + "!*@*"]
        if self.hostile_masks and r.random() < 0.08:
            forms = ["*zzzzzzzzzzzzzzzzzzzzzzzzzzzzzzzzzzzzzzzzzzzzzz", "*!*@*aaaaaaaaaaaaaaaaaaaaaaaaaaaaaaaaaaaaaaaaaaaaa*",
                     "é*!*@*", "*é", "?é?", "*" + "q" * 40 + "*!*@*"]
        return r.choice(forms)

    # ------------------------------------------------------------ next action
    def next(self):
        r = self.r
        live = self.live()
        kinds = list(self.weights)
        wts = [self.weights[k] for k in kinds]
        for _ in range(50):
            k = r.choices(kinds, wts)[0]
            a = getattr(self, "g_" + k)(live)
            if a is not None:
                return a
        return self.g_connect(live) or ("act", r.choice(live), {"verb": "LUSERS"})

    def g_connect(self, live):
        if len(live) >= self.max_clients:
            return None
        free = [n for n in self.nicks if n not in self.m.users]
        if not free:
            return None
        # a nickname that an unfinished registration has claimed is still free for everybody else
        claimed = [self.m.conn[h].get("claim") for h in self.halves()]
        claimed = [c for c in claimed if c in free]
        n = self.r.choice(claimed) if claimed and self.r.random() < 0.5 else self.r.choice(free)
        return ("connect", dict(nick=n, user=USERS.get(n, n), realname="R %s" % n,
                                password=self.server_password,
                                multi_prefix=self.r.random() < self.mp_rate))

    def g_cap(self, live):
        if not live:
            return None
        r = self.r
        sub = r.choice(["LS", "REQ", "REQ", "LIST", "END"])
        cmd = {"verb": "CAP", "sub": sub}
        if sub == "REQ":
            cmd["caps"] = r.choice([["multi-prefix"], ["multi-prefix"], ["bogus-cap"], ["multi-prefix", "bogus"]])
        if sub == "LS" and r.random() < 0.5:
            cmd["sub"] = "LS"
            cmd["line"] = "CAP LS 302"
        return ("act", r.choice(live), cmd)

    def halves(self):
        return [cid for cid, c in self.m.conn.items() if cid != 0 and c["nick"] is None and "claim" in c
                and cid in self.w.clients]

    def g_half(self, live):
        """an unfinished registration: a connection that only claims a nickname (taken, or free for now)"""
        if len(self.halves()) >= 2 or not live:
            return None
        r = self.r
        if r.random() < 0.4:
            nick = self.some_nick(1.0)
        else:
            free = [n for n in self.nicks if n not in self.m.users]
            if not free:
                return None
            nick = r.choice(free)
        if nick == "Mon":
            return None
        return ("half_open", nick, self.server_password)

    def g_half_complete(self, live):
        h = self.halves()
        if not h:
            return None
        # plain user names, accounts whose mask refuses this host, and accounts anybody may log in to (no password, no
        # mask): being a verified account does not make a late claim to a taken nickname any better
        users = ["hf", "hf2"] + [n for n, (pw_, m_) in self.m.cfg.users.items() if m_ or not pw_] * 2
        return ("half_complete", self.r.choice(h), self.r.choice(users))

    def g_half_probe(self, live):
        """a never-welcomed connection tries a gated command - aimed at the owner of the nickname it claimed, at
        operators, at channels"""
        h = self.halves()
        if not h:
            return None
        r = self.r
        cid = r.choice(h)
        claim = self.m.conn[cid].get("claim") or self.some_nick(1.0)
        other = self.some_nick(1.0)
        ch = self.some_chan(0.9)
        if ch == "#":
            ch = "#x"  # a bare sigil is not a valid PRIVMSG target: the syntax error would come before the 451
        line = r.choice([
            "PRIVMSG %s :from nobody" % other, "PRIVMSG %s :from nobody" % ch, "JOIN %s" % ch, "MODE %s +i" % claim,
            "MODE %s -o" % claim, "MODE %s -o" % other, "KILL %s :by nobody" % other, "KILL %s :by nobody" % claim,
            "WALLOPS :from nobody", "OPER root rootpw", "AWAY :nobody is away", "TOPIC %s :nobody's topic" % ch,
            "NAMES %s" % ch, "WHOIS %s" % claim, "ISON %s" % other, "PART %s" % ch, "KICK %s %s" % (ch, other),
            "INVITE %s %s" % (other, ch), "LUSERS", "STATS u", "PING x", "PONG x", "DIE", "SQUIT irc.verif.test :x",
            "MODE %s +m" % ch, "WHO %s" % ch, "LIST", "USERHOST %s" % other, "WHOWAS %s" % other])
        return ("half_probe", cid, line)

    def g_half_end(self, live):
        h = self.halves()
        if not h:
            return None
        return ("end", self.r.choice(h), self.r.choice(["close", "rst", "midline", "quit", "quit"]))

    def g_reuser(self, live):
        if not live:
            return None
        r = self.r
        return ("act", r.choice(live), {"verb": "REUSER", "what": r.choice(["user", "user", "pass"]),
                                        "user": r.choice(["forged", "root", "al", "x"]), "real": "Forged Name"})

    def g_end(self, live):
        if len(live) < 2:
            return None
        return ("end", self.r.choice(live), self.r.choice(self.endings))

    def g_quit(self, live):
        if len(live) < 2:
            return None
        return ("act", self.r.choice(live), {"verb": "QUIT"})

    def _actor(self, live):
        return self.r.choice(live) if live else None

    def g_join(self, live):
        if not live:
            return None
        r = self.r
        cid = r.choice(live)
        n = r.choices([1, 2, 3], [6, 3, 1])[0]
        chans = [self.some_chan(0.6) for _ in range(n)]
        if r.random() < 0.9:
            chans = list(dict.fromkeys(chans))
        keys = None
        if r.random() < 0.5 or any(self.m.chans.get(c) and self.m.chans[c].key for c in chans):
            if r.random() < 0.85:
                keys = []
                for c in chans:
                    ch = self.m.chans.get(c)
                    if ch is not None and ch.key is not None and r.random() < 0.7:
                        keys.append(ch.key)
                    else:
                        keys.append(r.choice(KEYS))
        return ("act", cid, {"verb": "JOIN", "chans": chans, "keys": keys})

    def _member_actor(self, live, chan=None):
        """(cid, channel) with the actor mostly on the channel"""
        r = self.r
        cands = []
        for cid in live:
            u = self.m.user_of(cid)
            for c in u.channels:
                cands.append((cid, c))
        if cands and r.random() < 0.85:
            return r.choice(cands)
        if not live:
            return None
        return r.choice(live), self.some_chan()

    def g_part(self, live):
        a = self._member_actor(live)
        if a is None:
            return None
        cid, c = a
        chans = [c] + ([self.some_chan()] if self.r.random() < 0.25 else [])
        chans = list(dict.fromkeys(chans))
        reason = self.text() if self.r.random() < 0.5 else None
        return ("act", cid, {"verb": "PART", "chans": chans, "reason": reason})

    def g_kick(self, live):
        a = self._member_actor(live)
        if a is None:
            return None
        cid, c = a
        r = self.r
        if r.random() < 0.4:
            # prefer an actor of middle rank on a channel with other ranked members (half-operator against operator,
            # operator against protected ...): the decisions the rank order exists for
            mid = []
            for x in live:
                u = self.m.user_of(x)
                for cn in u.channels:
                    mem = self.m.chans[cn].members
                    if mem[u.nick] and "q" not in mem[u.nick] and any(rk for n_, rk in mem.items() if n_ != u.nick):
                        mid.append((x, cn))
            if mid:
                cid, c = r.choice(mid)
        ch = self.m.chans.get(c)
        pool = list(ch.members) if ch else []
        users = []
        for _ in range(r.choices([1, 2, 3], [7, 2, 1])[0]):
            if pool and r.random() < 0.8:
                users.append(r.choice(pool))
            else:
                users.append(self.some_nick())
        me = self.m.conn[cid]["nick"]
        ranked = [m for m in pool if ch.members[m] and m != me] if ch else []
        if ranked and r.random() < 0.35:
            # rank against rank: who may remove whom is decided by the ranks the MODE history left behind
            users[0] = r.choice(ranked)
        if pool and r.random() < 0.2:
            # the same name again, adjacent and not adjacent ("absent and repeated names are refused individually")
            x = r.choice(pool)
            others = [r.choice(pool) if r.random() < 0.7 else self.some_nick() for _ in range(r.choice([0, 1, 1, 2]))]
            users = [x] + others + [x]
            if r.random() < 0.3:
                users.append(r.choice(users))
        comment = self.text() if r.random() < 0.6 else None
        if r.random() < 0.12:
            comment = ""  # a comment that is present and empty is not an absent one
        return ("act", cid, {"verb": "KICK", "chan": c, "users": users, "comment": comment})

    def g_topic(self, live):
        a = self._member_actor(live)
        if a is None:
            return None
        cid, c = a
        k = self.r.random()
        text = None if k < 0.25 else ("" if k < 0.35 else self.text())
        if k > 0.93:
            # around and beyond the advertised TOPICLEN (1000): what is announced is what later replies show
            text = self.text() + " " + "T" * self.r.choice([985, 1000, 1200, 1600])
        return ("act", cid, {"verb": "TOPIC", "chan": c, "text": text})

    def g_invite(self, live):
        a = self._member_actor(live)
        if a is None:
            return None
        cid, c = a
        return ("act", cid, {"verb": "INVITE", "nick": self.some_nick(0.85), "chan": c})

    def g_cmode(self, live):
        a = self._member_actor(live)
        if a is None:
            return None
        cid, c = a
        r = self.r
        ch = self.m.chans.get(c)
        members = list(ch.members) if ch else []
        groups = []
        ar = ch.members.get(self.m.conn[cid]["nick"], set()) if ch else set()
        if members and ar and r.random() < self.boundary_rate:
            # privilege boundary: a rank letter the actor may not give, followed by a letter it may, in one string
            refused = [l for l in "qaoh" if not {"q": "q" in ar, "a": bool(ar & set("qa")), "o": bool(ar & set("qao")),
                                                  "h": bool(ar & set("qao"))}[l]]
            if refused and (ar & set("qaoh")):
                l1 = r.choice(refused)
                l2 = r.choice("lkvb")
                a2 = {"l": str(r.choice([1, 5, 9])), "k": r.choice(KEYS), "v": r.choice(members), "b": self.mask_for()}[l2]
                return ("act", cid, {"verb": "MODE", "target": c, "modes": [("+" + l1 + l2, [r.choice(members), a2])]})
        for _ in range(r.choices([1, 2], [8, 2])[0]):
            ms = ""
            args = []
            sign = None
            for _ in range(r.choices([1, 2, 3, 4, 6], [5, 3, 2, 1, 1])[0]):
                s = r.choice("+-")
                if s != sign or r.random() < 0.2:
                    ms += s
                    sign = s
                l = r.choices(list(self.mode_weights), list(self.mode_weights.values()))[0]
                if l in "beI":
                    lst = {"b": ch.ban, "e": ch.exc, "I": ch.invex}[l] if ch else set()
                    if sign == "-" and lst and r.random() < 0.8:
                        m_ = r.choice(sorted(lst))
                        if r.random() < 0.35:
                            # the same mask in an incomplete form (completion applies to removal too)
                            if m_.endswith("!*@*"):
                                m_ = m_[:-4]
                            elif m_.endswith("@*") and "!" in m_:
                                m_ = m_[:-2]
                            elif "!*@" in m_:
                                m_ = m_.replace("!*@", "@", 1)
                        args.append(m_)
                    else:
                        args.append(self.mask_for(r.choice(members) if members and r.random() < 0.7 else None))
                    ms += l
                elif l in RANKS:
                    args.append(r.choice(members) if members and r.random() < 0.85 else self.some_nick())
                    ms += l
                elif l == "l":
                    ms += l
                    if sign == "+":
                        args.append(str(r.choice([0, 1, 2, 3, 4, 10, 18446744073709551615])))
                elif l == "k":
                    ms += l
                    if sign == "+":
                        args.append(r.choice(KEYS))
                else:
                    ms += l
            if not ms or ms[0] not in "+-":
                ms = "+" + ms
            ms = _fix_unset_kl(ms)
            groups.append((ms, args))
        return ("act", cid, {"verb": "MODE", "target": c, "modes": groups})

    def g_cquery(self, live):
        a = self._member_actor(live)
        if a is None:
            return None
        return ("act", a[0], {"verb": "MODE", "target": a[1], "modes": []})

    def g_chanlist(self, live):
        a = self._member_actor(live)
        if a is None:
            return None
        return ("act", a[0], {"verb": "CHANLIST", "chan": a[1], "letter": self.r.choice("beI")})

    def g_umode(self, live):
        if not live:
            return None
        r = self.r
        cid = r.choice(live)
        me = self.m.conn[cid]["nick"]
        target = me if r.random() < 0.8 else self.some_nick()
        twins = [n for n in self.m.users if n != me and n.lower() == me.lower()]
        if twins and r.random() < 0.4:
            target = r.choice(twins)  # another user whose nickname differs from the actor's in letter case only
        if r.random() < 0.1:
            return ("act", cid, {"verb": "MODE", "target": target, "modes": []})
        if r.random() < 0.12:
            # one letter flipped several times in one command, in one string or spread over several parameters
            l = r.choice("iwoO")
            flips = [r.choice("+-")]
            for _ in range(r.choice([1, 2, 2, 3, 4])):
                flips.append("-" if flips[-1] == "+" else "+")
            if r.random() < 0.5:
                return ("act", cid, {"verb": "MODE", "target": target, "modes": [("".join(f + l for f in flips), [])]})
            return ("act", cid, {"verb": "MODE", "target": target, "modes": [(f + l, []) for f in flips]})
        ms = ""
        sign = None
        for _ in range(r.choices([1, 2, 3], [6, 3, 1])[0]):
            s = r.choice("+-")
            if s != sign:
                ms += s
                sign = s
            ms += r.choices("iwroO", [4, 4, 1, 3, 2])[0]
        return ("act", cid, {"verb": "MODE", "target": target, "modes": [(ms, [])]})

    def g_nick(self, live):
        if not live:
            return None
        r = self.r
        cid = r.choice(live)
        k = r.random()
        if self.invalid_nicks and r.random() < 0.12:
            new = r.choice(["two words", "", " lead", "a b c", "ev\til", "nb\u00a0sp", "wide\u3000gap", "v\x0bt", "tail\t"])
            return ("act", cid, {"verb": "NICK", "nick": new, "line": "NICK :" + new})
        if k < 0.55:
            free = [n for n in self.nicks if n not in self.m.users]
            if not free:
                return None
            new = r.choice(free)
        elif k < 0.8:
            new = self.some_nick(1.0)
        elif k < 0.9:
            new = self.m.conn[cid]["nick"]
        else:
            new = r.choice(list(self.m.whowas) or self.nicks)
        if new == "Mon":
            return None
        return ("act", cid, {"verb": "NICK", "nick": new})

    def _targets(self, cid):
        r = self.r
        out = []
        u = self.m.user_of(cid)
        for _ in range(r.choices([1, 2, 3, 4], [6, 3, 2, 1])[0]):
            k = r.random()
            if k < 0.45:
                c = self.some_chan(0.85)
                if r.random() < 0.5 and u.channels:
                    c = r.choice(sorted(u.channels))
                out.append(c)
            elif k < 0.7:
                c = self.some_chan(0.9)
                pre = "".join(r.sample("~&@%+", r.choices([1, 2, 3], [6, 3, 1])[0]))
                if c.startswith("&") and pre.endswith("&"):
                    pre = pre + "@"
                out.append(pre + c)
            elif k < 0.95:
                out.append(self.some_nick(0.85))
            else:
                out.append(u.nick)
        if r.random() < 0.15 and out:
            out.append(r.choice(out))
        if r.random() < 0.05:
            # words at the edge of the target syntax: bare sigils (with and without status prefixes), a host-like name
            out.insert(r.randrange(len(out) + 1), r.choice(["#", "&", "@#", "+&", "~&&", "%#", "@&", "al.x", "@+#"]))
        return out

    def g_privmsg(self, live):
        if not live:
            return None
        cid = self.r.choice(live)
        return ("act", cid, {"verb": "PRIVMSG", "targets": self._targets(cid), "text": self.text()})

    def g_notice(self, live):
        if not live:
            return None
        cid = self.r.choice(live)
        return ("act", cid, {"verb": "NOTICE", "targets": self._targets(cid), "text": self.text()})

    def g_away(self, live):
        if not live:
            return None
        k = self.r.random()
        # an empty away message is an away message ("AWAY :" marks away; AWAY without parameter comes back)
        text = "" if k < 0.12 else (self.text() if k < 0.7 else None)
        return ("act", self.r.choice(live), {"verb": "AWAY", "text": text})

    def g_oper(self, live):
        if not live or not self.m.cfg.operators:
            return None
        r = self.r
        name = r.choice(list(OPER_PW) + ["nobody"])
        pw = OPER_PW.get(name, "x")
        k = r.random()
        if k < 0.3:
            pw = r.choice(["wrong", OPER_PW["root"], "", "rootpw "][:3] + ["admpw"])
            if pw == "":
                pw = "wrong2"
        return ("act", r.choice(live), {"verb": "OPER", "name": name, "password": pw})

    def g_kill(self, live):
        if len(live) < 2:
            return None
        r = self.r
        cid = r.choice(live)
        t = self.some_nick(0.9)
        if t == "Mon":
            return None
        return ("act", cid, {"verb": "KILL", "nick": t, "comment": self.text()})

    def g_wallops(self, live):
        if not live:
            return None
        return ("act", self.r.choice(live), {"verb": "WALLOPS", "text": self.text()})

    def g_stats(self, live):
        if not live:
            return None
        return ("act", self.r.choice(live), {"verb": "STATS", "query": self.r.choice("umumchikloy")})

    def g_die(self, live):
        if not live:
            return None
        cid = self.r.choice(live)
        if self.m.user_of(cid).is_oper:
            return None  # the privileged case is exercised at the end of an episode
        return ("act", cid, {"verb": "DIE"})

    def g_squit(self, live):
        if not live:
            return None
        cid = self.r.choice(live)
        if self.m.user_of(cid).is_oper:
            return None
        return ("act", cid, {"verb": "SQUIT", "server": self.r.choice([self.m.cfg.name, "other.srv"])})

    def g_names(self, live):
        if not live:
            return None
        r = self.r
        chans = [] if r.random() < 0.2 else list(dict.fromkeys(
            self.some_chan(0.85) for _ in range(r.choice([1, 1, 2]))))
        return ("act", r.choice(live), {"verb": "NAMES", "chans": chans})

    def g_who(self, live):
        if not live:
            return None
        r = self.r
        k = r.random()
        if k < 0.4:
            mask = self.some_chan(0.9)
        elif k < 0.6:
            mask = self.some_nick()
        else:
            mask = r.choice(["*", "a*", "*o", "?o", "*!*@127.0.0.1", "*!~b*@*", "R?*", "*d*", "??",
                             "*!*@10.*", "r?ot", "zo?", "?o?", "z?é", "*é", "zo?!*@*", "*zzzzzzzzzzzzzzzzzzzzzzzzzzzzzzzzzzzzzzzzzz"
                             if self.hostile_masks else "*z"])
        return ("act", r.choice(live), {"verb": "WHO", "mask": mask})

    def g_whois(self, live):
        if not live:
            return None
        r = self.r
        masks = []
        for _ in range(r.choice([1, 1, 2])):
            if r.random() < 0.7:
                masks.append(self.some_nick())
            else:
                masks.append(r.choice(["*", "a*", "?o", "*o*", "r??t", "b?", "*y", "zo?", "??é",
                                       "*zzzzzzzzzzzzzzzzzzzzzzzzzzzzzzzzzzzz" if self.hostile_masks else "*q"]))
        return ("act", r.choice(live), {"verb": "WHOIS", "masks": masks})

    def g_list(self, live):
        if not live:
            return None
        r = self.r
        chans = [] if r.random() < 0.5 else list(dict.fromkeys(
            self.some_chan(0.85) for _ in range(r.choice([1, 2]))))
        return ("act", r.choice(live), {"verb": "LIST", "chans": chans})

    def g_lusers(self, live):
        if not live:
            return None
        return ("act", self.r.choice(live), {"verb": "LUSERS"})

    def g_ison(self, live):
        if not live:
            return None
        return ("act", self.r.choice(live), {"verb": "ISON",
                                             "nicks": [self.some_nick(0.6) for _ in range(self.r.choice([1, 2, 4]))]})

    def g_userhost(self, live):
        if not live:
            return None
        return ("act", self.r.choice(live), {"verb": "USERHOST",
                                             "nicks": [self.some_nick(0.7) for _ in range(self.r.choice([1, 2, 4]))]})

    def g_whowas(self, live):
        if not live:
            return None
        pool = list(self.m.whowas) + self.nicks[:3]
        cmd = {"verb": "WHOWAS", "nick": self.r.choice(pool)}
        if self.r.random() < 0.5:
            cmd["count"] = self.r.choice([0, 1, 2, 3, 7, 1000000])
        return ("act", self.r.choice(live), cmd)


def _fix_unset_kl(ms):
    """this server rejects '-k' / '-l' when a later letter of the same mode string still takes a
    parameter ("Unexpected argument"); keep the generated strings inside the accepted syntax"""
    out = []
    sign = "+"
    letters = []
    for ch in ms:
        if ch in "+-":
            sign = ch
        letters.append((sign, ch))
    for i, (sg, ch) in enumerate(letters):
        if sg == "-" and ch in "kl":
            later = any(c in "beIqaohv" or (c in "kl" and s2 == "+") for s2, c in letters[i + 1:]
                        if c not in "+-")
            if later:
                continue
        out.append(ch)
    res = "".join(out)
    # drop sign characters that are left without letters
    cleaned = ""
    for i, ch in enumerate(res):
        if ch in "+-" and (i + 1 == len(res) or res[i + 1] in "+-"):
            continue
        cleaned += ch
    return cleaned if cleaned and cleaned[0] in "+-" and len(cleaned) > 1 else "+n"
