"""System under test: build /repo (hooks on), spawn the real server binary, snapshot port."""
import fcntl
import hashlib
import json
import os
import re
import shutil
import socket
import subprocess
import tempfile
import threading
import time

VERIF = os.path.dirname(os.path.dirname(os.path.abspath(__file__)))
REPO = os.environ.get("VERIF_REPO", "/repo")
BUILD_ROOT = os.path.join(VERIF, ".build")


def _target_dir(repo):
    if os.path.realpath(repo) == "/repo":
        return os.path.join(BUILD_ROOT, "target")
    h = hashlib.sha1(os.path.realpath(repo).encode()).hexdigest()[:10]
    return os.path.join(BUILD_ROOT, "target-" + h)


def cov_env(env):
    """development aid (tools/coverage.sh): let a coverage build write its counters continuously"""
    if os.environ.get("VERIF_COVERAGE"):
        env["LLVM_PROFILE_FILE"] = os.path.join(os.environ["VERIF_COVERAGE"], "%p-%m.profraw%c")
    return env


class BuildError(Exception):
    pass


_build_cache = {}


def build(features=("verif",), release=False, repo=None, quiet=True):
    """cargo build from the repo's current working tree; returns (binary path, hooks_available)."""
    repo = repo or REPO
    if os.environ.get("VERIF_FORCE_NOHOOKS"):
        # exercise the fall-back path (hooks broken by a refactoring): plain build, black-box oracles only
        features = tuple(f for f in features if f != "verif")
    key = (repo, tuple(features), release)
    if key in _build_cache:
        return _build_cache[key]
    os.makedirs(BUILD_ROOT, exist_ok=True)
    env = dict(os.environ)
    env["CARGO_NET_OFFLINE"] = "true"
    env["CARGO_TARGET_DIR"] = _target_dir(repo)
    env.pop("RUSTFLAGS", None)
    cov = os.environ.get("VERIF_COVERAGE")
    if cov:
        # development aid (tools/coverage.sh): source-coverage build, profiles written continuously into <cov>
        env["CARGO_TARGET_DIR"] = os.path.join(BUILD_ROOT, "target-cov")
        env["RUSTFLAGS"] = "-Cinstrument-coverage -Cllvm-args=-runtime-counter-relocation"
        env["LLVM_PROFILE_FILE"] = os.path.join(cov, "build-%p-%m.profraw")  # instrumented build scripts

    def run(feats):
        cmd = ["cargo"] + (["+nightly"] if cov else []) + ["build", "--offline"]
        if not release:
            # optimise only the password-hash dependencies (0.17 s -> ms per verification); the
            # server's own crate keeps the plain debug profile with all its runtime checks
            for pkg in ("argon2", "blake2", "password-hash", "digest", "block-buffer"):
                cmd += ["--config", "profile.dev.package.%s.opt-level=3" % pkg]
        if release:
            cmd.append("--release")
        if feats:
            cmd += ["--features", ",".join(feats)]
        # different feature sets go to the same target dir; cargo keeps them apart by hash but
        # the final binary is overwritten, so copy it away under a lock
        lock = open(os.path.join(BUILD_ROOT, "build.lock"), "w")
        fcntl.flock(lock, fcntl.LOCK_EX)
        try:
            p = subprocess.run(cmd, cwd=repo, env=env, stdout=subprocess.PIPE,
                               stderr=subprocess.STDOUT, text=True)
            if p.returncode != 0:
                return None, p.stdout
            prof = "release" if release else "debug"
            src = os.path.join(env["CARGO_TARGET_DIR"], prof, "simple-irc-server")
            tag = "-".join(sorted(feats)) or "plain"
            dst = os.path.join(env["CARGO_TARGET_DIR"], prof, "sirc-" + tag)
            if (not os.path.exists(dst)) or os.path.getmtime(dst) < os.path.getmtime(src) \
                    or os.path.getsize(dst) != os.path.getsize(src) or _differs(src, dst):
                shutil.copy2(src, dst + ".tmp")
                os.replace(dst + ".tmp", dst)
            return dst, p.stdout
        finally:
            fcntl.flock(lock, fcntl.LOCK_UN)
            lock.close()

    path, out = run(list(features))
    hooks = "verif" in features
    if path is None and "verif" in features:
        # hooks may have been broken by a refactoring: fall back to the plain build
        feats = [f for f in features if f != "verif"]
        path, out2 = run(feats)
        hooks = False
        if path is None:
            raise BuildError(out2[-4000:])
    elif path is None:
        raise BuildError(out[-4000:])
    _build_cache[key] = (path, hooks)
    return path, hooks


def _differs(a, b):
    with open(a, "rb") as fa, open(b, "rb") as fb:
        while True:
            x = fa.read(1 << 20)
            y = fb.read(1 << 20)
            if x != y:
                return True
            if not x:
                return False


_hash_cache = {}


def password_hash(binary, pw):
    k = (binary, pw)
    if k not in _hash_cache:
        p = subprocess.run([binary, "-g", "-P", pw], stdout=subprocess.PIPE, stderr=subprocess.PIPE,
                           text=True, timeout=60, env=cov_env(dict(os.environ)))
        m = re.search(r"Password Hash: (\S+)", p.stdout)
        if not m:
            raise RuntimeError("no hash from -g: %r %r" % (p.stdout, p.stderr))
        _hash_cache[k] = m.group(1)
    return _hash_cache[k]


_port_state = {"pid": None, "next": 0}


_port_locks = {}


def _own_port(port):
    """cross-process ownership of a port number: an abstract unix socket named after it, held until this
    process exits (two harness processes whose blocks coincide -- pid modulo 550 -- would otherwise both find
    the port free, start a server each, and the loser's readiness probe would reach the winner's server)"""
    if port in _port_locks:
        return True
    l = socket.socket(socket.AF_UNIX, socket.SOCK_STREAM)
    try:
        l.bind("\0sircv-port-%d" % port)
    except OSError:
        l.close()
        return False
    _port_locks[port] = l
    return True


def free_port():
    """a loopback port outside the ephemeral range, from a block owned by this process (parallel workers
    never race for the same number; client source ports cannot collide with it)"""
    pid = os.getpid()
    if _port_state["pid"] != pid:
        _port_state["pid"] = pid
        _port_state["next"] = 0
        _port_locks.clear()   # inherited over fork: the parent keeps them, the child takes its own
    for attempt in range(400):
        k = _port_state["next"]
        _port_state["next"] = (k + 1) % 40
        # after one round over the own block: the neighbouring blocks
        port = 10000 + (((pid % 550) + attempt // 40 * 7) % 550) * 40 + k
        if not _own_port(port):
            continue
        s = socket.socket()
        try:
            s.setsockopt(socket.SOL_SOCKET, socket.SO_REUSEADDR, 1)
            s.bind(("127.0.0.1", port))
            s.close()
            return port
        except OSError:
            s.close()
    raise RuntimeError("no free loopback port")


def toml_str(s):
    out = ['"']
    for c in s:
        if c == '"':
            out.append('\\"')
        elif c == "\\":
            out.append("\\\\")
        elif c == "\n":
            out.append("\\n")
        elif c == "\r":
            out.append("\\r")
        elif c == "\t":
            out.append("\\t")
        elif ord(c) < 0x20 or ord(c) == 0x7f:
            out.append("\\u%04x" % ord(c))
        else:
            out.append(c)
    out.append('"')
    return "".join(out)


def toml_val(v):
    if isinstance(v, bool):
        return "true" if v else "false"
    if isinstance(v, int):
        return str(v)
    if isinstance(v, str):
        return toml_str(v)
    if isinstance(v, (list, tuple, set, frozenset)):
        return "[" + ", ".join(toml_val(x) for x in sorted(v)) + "]"
    raise TypeError(v)


CHANNEL_BOOLS = ("invite_only", "moderated", "secret", "protected_topic", "no_external_messages")


def make_config(port, name="irc.verif.test", network="VerifNet", motd="Hello, world!",
                password=None, max_connections=None, max_joins=None, ping_timeout=120,
                pong_timeout=20, default_user_modes=None, operators=(), users=(), channels=(),
                tls=None, log_level="WARN", log_file=None, admin_info="admin info",
                admin_info2=None, admin_email=None, info="server info", listen="127.0.0.1",
                dns_lookup=False, raw_extra=""):
    """Render a configuration dict to TOML. Passwords must already be hashes."""
    L = []
    L.append("name = %s" % toml_str(name))
    L.append("admin_info = %s" % toml_str(admin_info))
    if admin_info2 is not None:
        L.append("admin_info2 = %s" % toml_str(admin_info2))
    if admin_email is not None:
        L.append("admin_email = %s" % toml_str(admin_email))
    L.append("info = %s" % toml_str(info))
    L.append("listen = %s" % toml_str(listen))
    L.append("port = %d" % port)
    if password is not None:
        L.append("password = %s" % toml_str(password))
    L.append("network = %s" % toml_str(network))
    if max_connections is not None:
        L.append("max_connections = %d" % max_connections)
    if max_joins is not None:
        L.append("max_joins = %d" % max_joins)
    L.append("ping_timeout = %d" % ping_timeout)
    L.append("pong_timeout = %d" % pong_timeout)
    L.append("motd = %s" % toml_str(motd))
    L.append("dns_lookup = %s" % toml_val(dns_lookup))
    L.append("log_level = %s" % toml_str(log_level))
    if log_file is not None:
        L.append("log_file = %s" % toml_str(log_file))
    if raw_extra:
        L.append(raw_extra)
    if tls:
        L.append("[tls]")
        L.append("cert_file = %s" % toml_str(tls[0]))
        L.append("cert_key_file = %s" % toml_str(tls[1]))
    dm = dict(invisible=False, oper=False, local_oper=False, registered=False, wallops=False)
    dm.update(default_user_modes or {})
    L.append("[default_user_modes]")
    for k, v in dm.items():
        L.append("%s = %s" % (k, toml_val(v)))
    for o in operators:
        L.append("[[operators]]")
        for k in ("name", "password", "mask"):
            if o.get(k) is not None:
                L.append("%s = %s" % (k, toml_str(o[k])))
    for u in users:
        L.append("[[users]]")
        for k in ("name", "nick", "password", "mask"):
            if u.get(k) is not None:
                L.append("%s = %s" % (k, toml_str(u[k])))
    for c in channels:
        L.append("[[channels]]")
        L.append("name = %s" % toml_str(c["name"]))
        if c.get("topic") is not None:
            L.append("topic = %s" % toml_str(c["topic"]))
        L.append("[channels.modes]")
        m = c.get("modes", {})
        for k in CHANNEL_BOOLS:
            L.append("%s = %s" % (k, toml_val(bool(m.get(k, False)))))
        for k in ("key",):
            if m.get(k) is not None:
                L.append("%s = %s" % (k, toml_str(m[k])))
        if m.get("client_limit") is not None:
            L.append("client_limit = %d" % m["client_limit"])
        for k in ("ban", "exception", "invite_exception", "founders", "protecteds", "operators",
                  "half_operators", "voices"):
            if m.get(k) is not None:
                L.append("%s = %s" % (k, toml_val(list(m[k]))))
    return "\n".join(L) + "\n"


PANIC_RE = re.compile(r"panicked at ([^\n]*)")


class Server:
    """One running server process."""

    def __init__(self, binary, cfg=None, hooks=True, jitter=None, env=None, worker_threads=None,
                 config_text=None, extra_args=(), tls=False, wrapper=None, start_timeout=20.0):
        self.binary = binary
        self.cfg = dict(cfg or {})
        self.hooks = hooks
        self.jitter = jitter
        self.extra_env = env or {}
        self.worker_threads = worker_threads
        self.config_text = config_text
        self.extra_args = list(extra_args)
        self.tls = tls
        if wrapper is None and os.environ.get("SIRCV_WRAPPER"):
            wrapper = os.environ["SIRCV_WRAPPER"].split()  # e.g. valgrind (thorough tier of C05)
            start_timeout = max(start_timeout, 90.0)
        self.wrapper = wrapper
        self.start_timeout = start_timeout
        self.proc = None
        self.port = None
        self.ctl_port = None
        self.ctl = None
        self.ctl_buf = b""
        self.dir = None
        self.stderr_lines = []
        self._t = None
        self._lock = threading.Lock()

    def start(self):
        last = None
        for _ in range(5):
            try:
                self._start_once()
                return self
            except RuntimeError as e:
                last = e
                self.stop()
        raise last

    def _start_once(self):
        self.dir = tempfile.mkdtemp(prefix="sircv-", dir=os.path.join(BUILD_ROOT, "run"))
        self.port = free_port()
        text = self.config_text
        if text is None:
            text = make_config(self.port, **self.cfg)
        else:
            text = text.replace("@PORT@", str(self.port))
        cfgp = os.path.join(self.dir, "cfg.toml")
        with open(cfgp, "w") as f:
            f.write(text)
        env = dict(os.environ)
        env["RUST_BACKTRACE"] = "0"
        env.pop("RUST_LOG", None)
        if self.hooks:
            self.ctl_port = free_port()
            env["SIRC_VERIF_CTL"] = str(self.ctl_port)
            if self.jitter:
                env["SIRC_VERIF_JITTER"] = "%d,%d" % tuple(self.jitter)
        if self.worker_threads:
            env["TOKIO_WORKER_THREADS"] = str(self.worker_threads)
        cov_env(env)
        env.update(self.extra_env)
        cmd = list(self.wrapper or []) + [self.binary, "-c", cfgp] + self.extra_args
        self.stderr_lines = []
        self.proc = subprocess.Popen(cmd, cwd=self.dir, env=env, stdin=subprocess.DEVNULL,
                                     stdout=subprocess.PIPE, stderr=subprocess.STDOUT)
        self._t = threading.Thread(target=self._pump, daemon=True)
        self._t.start()
        deadline = time.time() + self.start_timeout
        while time.time() < deadline:
            if self.proc.poll() is not None:
                raise RuntimeError("server exited at start: %s" % self.output()[-2000:])
            try:
                s = socket.create_connection(("127.0.0.1", self.port), timeout=0.5)
                s.close()
                time.sleep(0.01)
                if self.proc.poll() is not None:
                    raise RuntimeError("server exited at start: %s" % self.output()[-2000:])
                break
            except OSError:
                time.sleep(0.02)
        else:
            raise RuntimeError("server did not listen: %s" % self.output()[-2000:])
        if self.hooks:
            deadline = time.time() + 5
            while True:
                try:
                    self.ctl = socket.create_connection(("127.0.0.1", self.ctl_port), timeout=2)
                    self.ctl.setsockopt(socket.IPPROTO_TCP, socket.TCP_NODELAY, 1)
                    break
                except OSError:
                    if time.time() > deadline:
                        raise RuntimeError("control port not reachable")
                    time.sleep(0.02)

    def _pump(self):
        p = self.proc
        for raw in iter(p.stdout.readline, b""):
            with self._lock:
                self.stderr_lines.append(raw.decode("utf-8", "replace").rstrip("\n"))
                if len(self.stderr_lines) > 20000:
                    del self.stderr_lines[:10000]

    def output(self):
        with self._lock:
            return "\n".join(self.stderr_lines)

    def panics(self):
        """list of (location-without-line-numbers, message) for every panic seen on stderr,
        plus the number of handler-abort sentinels"""
        with self._lock:
            lines = list(self.stderr_lines)
        res = []
        aborts = []
        for i, l in enumerate(lines):
            m = PANIC_RE.search(l)
            if m:
                loc = re.sub(r":\d+:\d+:?$", "", m.group(1).strip())
                msg = lines[i + 1].strip() if i + 1 < len(lines) else ""
                res.append((loc, re.sub(r"\d+", "N", msg)[:160]))
            if "VERIF-HANDLER-ABORT" in l:
                aborts.append((l, res[-1] if res else None))
        return res, aborts

    def _ctl_cmd(self, cmd, timeout=10.0):
        self.ctl.settimeout(timeout)
        self.ctl.sendall(cmd + b"\n")
        while b"\n" not in self.ctl_buf:
            d = self.ctl.recv(1 << 20)
            if not d:
                raise RuntimeError("control connection closed")
            self.ctl_buf += d
        line, _, self.ctl_buf = self.ctl_buf.partition(b"\n")
        return json.loads(line.decode("utf-8"))

    def snap(self):
        if not self.hooks or self.ctl is None:
            return None
        return self._ctl_cmd(b"SNAP")

    def alive(self):
        return self.proc is not None and self.proc.poll() is None

    def stop(self):
        if self.ctl is not None:
            try:
                self.ctl.close()
            except OSError:
                pass
            self.ctl = None
        if self.proc is not None:
            if self.proc.poll() is None:
                self.proc.kill()
            try:
                self.proc.wait(timeout=10)
            except subprocess.TimeoutExpired:
                pass
            if self._t is not None:
                self._t.join(timeout=2)
            try:
                self.proc.stdout.close()
            except OSError:
                pass
            self.proc = None
        if self.dir and os.path.isdir(self.dir):
            shutil.rmtree(self.dir, ignore_errors=True)
            self.dir = None

    def __enter__(self):
        return self.start()

    def __exit__(self, *a):
        self.stop()


os.makedirs(os.path.join(BUILD_ROOT, "run"), exist_ok=True)


def diagnose(srv, tls=False, wait=8.0):
    """after a harness time-out: is it the server? -> 'dead' (process gone), 'hung' (process alive, a fresh connection
    gets no answer for `wait` seconds although the harness itself is scheduled promptly), 'responsive', or 'unknown'
    (the harness was not scheduled promptly: nothing can be said)"""
    import threading
    from . import wire
    if not srv.alive():
        return "dead"
    lag = [0.0]
    stop = []

    def beat():
        last = time.monotonic()
        while not stop:
            time.sleep(0.05)
            now = time.monotonic()
            lag[0] = max(lag[0], now - last - 0.05)
            last = now
    t = threading.Thread(target=beat, daemon=True)
    t.start()
    ok = False
    try:
        c = wire.Client(srv.port, tls=tls, timeout=wait)
        # a registration needs the state lock: a server whose lock is stuck answers unregistered PINGs but nothing else
        c.send("NICK dg%d%d" % (os.getpid() % 10000, int(time.time() * 10) % 100000))
        c.send("USER diagnose 0 * :d")
        c.read_until(lambda m: m.verb in ("001", "464", "433") or m.verb.startswith("ERROR"), wait)
        c.close()
        ok = True
    except (wire.Closed, wire.Timeout, OSError):
        ok = False
    stop.append(1)
    if ok:
        return "responsive"
    if not srv.alive():
        return "dead"
    return "hung" if lag[0] < 1.0 else "unknown"
