"""Connection slot driver for C19: with max_connections = m never more than m connections are served at
once and every connection that ends - however it ends - frees its slot."""
import random
import time

from . import sut, wire

ENDINGS = ["close", "rst", "quit", "registered-close", "registered-quit", "registered-rst", "midline", "badutf8",
           "killed", "halfclose", "wrongpass"]


def served(c, timeout=3.0):
    """a connection is served iff a probe line is answered; a refused one is closed without a word"""
    c.send("PING slotprobe")
    try:
        lines = c.read_until(lambda m: m.verb in ("451", "PONG"), timeout)
        return True
    except wire.Closed:
        return False
    except wire.Timeout:
        return None


def run(binary, hooks, seed, quick):
    r = random.Random(seed)
    out = dict(findings=[], rounds=0, opened=0, classes=set(), samples=[], inconclusive=None)
    for m in ([1, 2, 5] if quick else [1, 2, 3, 5, 8]):
        pw = r.random() < 0.5
        cfg = dict(max_connections=m,
                   operators=[{"name": "root", "password": sut.password_hash(binary, "rootpw")}])
        try:
            with sut.Server(binary, cfg, hooks=hooks) as srv:
                conns = []  # (client, registered nick or None)

                def open_one(tag):
                    c = wire.Client(srv.port, name=tag, timeout=5.0)
                    c.keep_transcript = False
                    out["opened"] += 1
                    return c

                counter = [0]

                def fill():
                    """open until one is refused; returns number served now"""
                    for _ in range(m + 3):
                        counter[0] += 1
                        c = open_one("s%d" % counter[0])
                        s = served(c)
                        if s is None:
                            out["findings"].append(("slots:silent", "connection neither answered nor closed (m=%d)" % m))
                            c.close()
                            return
                        if s:
                            conns.append([c, None])
                        else:
                            c.close()
                    return

                for rnd in range(6 if quick else 20):
                    out["rounds"] += 1
                    fill()
                    live = len(conns)
                    if live > m:
                        out["findings"].append(("slots:too-many-served", "max_connections=%d but %d connections are "
                                                "served at once" % (m, live)))
                        break
                    if live < m:
                        out["findings"].append(("slots:slot-leak", "max_connections=%d, only %d connections can be served "
                                                "in round %d after endings %s" % (m, live, rnd, out["samples"][-3:])))
                        break
                    if hooks:
                        s = srv.snap()
                        if s["conns_count"] != live:
                            out["findings"].append(("slots:conns-count", "conns_count %d but %d connections are open"
                                                    % (s["conns_count"], live)))
                            break
                    # end a random non-empty subset in random ways
                    k = r.randrange(1, live + 1)
                    victims = r.sample(range(live), k)
                    hows = []
                    for i in sorted(victims, reverse=True):
                        c, nick = conns.pop(i)
                        how = r.choice(ENDINGS)
                        if how == "killed" and (m < 2 or len(conns) == 0):
                            how = "registered-close"
                        hows.append(how)
                        out["classes"].add((m, how))
                        end(c, how, r, counter, conns, srv)
                    out["samples"].append({"max_connections": m, "round": rnd, "ended": hows})
                    # wait until the slots are free again (bounded): by snapshot if possible, else by time
                    deadline = time.monotonic() + 5.0
                    while hooks and time.monotonic() < deadline:
                        if srv.snap()["conns_count"] <= len(conns):
                            break
                        time.sleep(0.005)
                    if not hooks:
                        time.sleep(0.3)
                for c, _ in conns:
                    c.close()
        except (wire.Closed, wire.Timeout, OSError, RuntimeError) as ex:
            out["inconclusive"] = "slots m=%d: %r" % (m, ex)
    out["classes"] = [list(c) for c in out["classes"]]
    out["samples"] = out["samples"][:4]
    return out


def end(c, how, r, counter, conns, srv):
    nick = "sl%d" % counter[0]
    counter[0] += 1
    try:
        if how.startswith("registered") or how == "killed":
            c.register(nick, "sl")
        if how in ("close", "registered-close"):
            c.close()
        elif how in ("rst", "registered-rst"):
            c.close_rst()
        elif how in ("quit", "registered-quit"):
            c.send("QUIT")
            c.read_to_eof(3.0)
            c.close()
        elif how == "midline":
            c.send_raw(b"NICK unfinis")
            c.close()
        elif how == "badutf8":
            c.send_raw(b"NICK \xff\xfe\r\n")
            c.read_to_eof(3.0)
            c.close()
        elif how == "halfclose":
            c.half_close()
            c.read_to_eof(3.0)
            c.close()
        elif how == "wrongpass":
            # no server password configured: a PASS is harmless; then leave
            c.send("PASS nothing")
            c.close()
        elif how == "killed":
            k = conns[0][0]
            if conns[0][1] is None:
                kn = "kl%d" % counter[0]
                counter[0] += 1
                k.register(kn, "kl")
                conns[0][1] = kn
                k.send("OPER root rootpw")
                k.ping("o")
            k.send("KILL %s :slot" % nick)
            k.ping("k")
            c.read_to_eof(3.0)
            c.close()
    except (wire.Closed, wire.Timeout):
        c.close()
