"""C03 - nothing works before registration; registration needs the right password."""
import multiprocessing

from .. import gate
from ..runner import Finding, Result


def run(ctx):
    res = Result("C03", level="fault_enumeration")
    binary, hooks = ctx.binary()
    res.extra["hooks_available"] = hooks
    nsh = 4
    jobs = []
    for k, cfgname in enumerate(gate.CONFIGS):
        for sh in range(nsh):
            jobs.append((binary, hooks, cfgname, ctx.seeds(1, cfgname)[0], ctx.quick, sh, nsh))
    with multiprocessing.Pool(16) as pool:
        outs = pool.map(gate.gate_worker, jobs)
    cmds = 0
    for o in outs:
        res.evaluations += o["cases"]
        cmds += o["commands"]
        for c in o["classes"]:
            res.distinct.add("|".join(c))
        for (sig, detail), rp in zip(o["findings"], o.get("replays") or [{}] * len(o["findings"])):
            res.findings.append(Finding(sig, detail, dict(engine="gate", **rp)))
        for s in o["samples"][:1]:
            res.add_sample(s)
        if o["inconclusive"]:
            res.inconclusive += 1
            res.inconclusive_notes.append(o["inconclusive"])
    res.extra["commands_sent"] = cmds
    res.extra["configurations"] = list(gate.CONFIGS)
    res.extra["exhaustive_subspace"] = ("all command sequences up to length %d over the reduced alphabet (%s symbols per "
                                        "configuration), every gated verb on a fresh connection and just before completion"
                                        % (outs[0]["maxlen"], outs[0]["alphabet"]))
    res.exhaustive = False
    res.rule = ("every command sequence up to length 3 (thorough: 4) over {PASS good/bad/other, NICK free/taken, USER plain/"
                "configured (password / mask matching / mask not matching), CAP LS, CAP END, two gated commands} plus random "
                "sequences of length <= 8 over the full alphabet incl. all 38 gated verbs, on a fresh connection, x 4 "
                "configurations (server password off/on x configured users); oracle: reference automaton over (nick?, user?, "
                "pass?, cap-open?, registered?) + observer client + snapshot equality (a gated command changes nothing, a "
                "closed connection leaves no user); distinct = (expected outcome, verb, automaton state)")
    res.floor("sequences", res.evaluations, 3000)
    if not res.samples:
        res.add_sample({"sequence": ["NICK gate1", "PRIVMSG obs :psst", "USER plain 0 * :P"]})
    res.assumptions = ["when a configured user has its own password that one is required, otherwise the server password "
                       "(the statement leaves the precedence open; this is what the server does)"]
    # the refusal that comes late (433 after somebody else registered the claimed nick in the meantime) under real
    # contention: losers of simultaneous claims stay gated, the winner is welcomed, a loser may register under another nick
    from . import common
    common.run_storm_kinds(ctx, res, "c03:", ["claim"], 12, 80, jobs=4, jitter=2000)
    return res


def replay(ctx, path):
    import json
    with open(path) as f:
        d = json.load(f)
    rp = d.get("replay", {})
    if "sequence" not in rp:
        print("no sequence recorded; the finding's detail carries it")
        return 2
    binary, hooks = ctx.binary()
    g = gate.GateRun(binary, hooks, rp["config"], 1)
    g.run([rp["sequence"]])
    for f_ in g.findings:
        print("  ", f_)
    if g.findings:
        print("VIOLATION property=C03 replay=%s" % path)
        return 1
    print("sequence %s under configuration %s: conforms" % (rp["sequence"], rp["config"]))
    return 0
