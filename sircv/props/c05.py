"""C05 - no input can crash a session handler or the server."""
import os
import subprocess

from .. import fuzz, sut
from ..runner import Finding, Result
from . import common


def asan_binary():
    """nightly AddressSanitizer build of the server (thorough tier); returns path or (None, note)"""
    env = dict(os.environ)
    env["CARGO_NET_OFFLINE"] = "true"
    env["CARGO_TARGET_DIR"] = os.path.join(sut.BUILD_ROOT, "target-asan")
    env["RUSTFLAGS"] = "-Zsanitizer=address -Cforce-frame-pointers=yes"
    p = subprocess.run(["cargo", "+nightly", "build", "--offline", "--features", "verif", "--target",
                        "x86_64-unknown-linux-gnu"], cwd=sut.REPO, env=env, stdout=subprocess.PIPE,
                       stderr=subprocess.STDOUT, text=True)
    if p.returncode != 0:
        return None, "ASan build unavailable: " + p.stdout[-400:]
    return os.path.join(env["CARGO_TARGET_DIR"], "x86_64-unknown-linux-gnu", "debug", "simple-irc-server"), "ok"


def collect(res, outs, tag):
    lines = 0
    for o in outs:
        lines += o["lines"]
        for c in o["cases"]:
            res.distinct.add(repr(tuple(c)))
        for sig, detail in o["findings"]:
            res.findings.append(Finding(sig, "[%s] %s" % (tag, detail), {"engine": "fuzz", "build": tag}))
        for s in o["samples"]:
            res.add_sample(s)
        if o["inconclusive"]:
            res.inconclusive += 1
            res.inconclusive_notes.append(o["inconclusive"][:300])
    res.evaluations += lines
    return lines


def run(ctx):
    res = Result("C05")
    binary, hooks = ctx.binary()
    res.extra["hooks_available"] = hooks
    common.probe_regressions(ctx, res, binary, hooks)
    workers = 16
    sessions, nlines = (12, 300) if ctx.quick else (48, 1200)
    outs = fuzz.run(binary, hooks, ctx.seeds(workers, "fuzz"), sessions, nlines, workers)
    n = collect(res, outs, "debug")
    counts = {}
    for o in outs:
        for v, c in o["counts"].items():
            counts[v] = counts.get(v, 0) + c
    res.extra["lines_debug_build"] = n
    res.extra["sessions"] = sum(o["sessions"] for o in outs)
    res.extra["server_command_counts"] = counts
    res.extra["verbs_dispatched"] = len(counts)
    states = {eval(c)[2] for c in res.distinct}
    res.extra["session_states_covered"] = sorted(states)
    if not ctx.quick:
        rb, _ = ctx.binary(release=True)
        outs = fuzz.run(rb, hooks, ctx.seeds(workers, "fuzz-release"), 12, 1200, workers)
        res.extra["lines_release_build"] = collect(res, outs, "release")
        ab, note = asan_binary()
        if ab is None:
            res.extra["asan"] = "skipped: " + note
        else:
            os.environ.setdefault("ASAN_OPTIONS", "halt_on_error=1:abort_on_error=1:detect_leaks=0")
            outs = fuzz.run(ab, hooks, ctx.seeds(workers, "fuzz-asan"), 8, 600, workers)
            res.extra["lines_asan_build"] = collect(res, outs, "asan")
            res.extra["asan"] = "no report" if not any(f.replay.get("build") == "asan" for f in res.findings) else "see findings"
        # valgrind memcheck under the release build (dependencies contain unsafe code): only memcheck's own reports
        # count here - under a 25x slowdown the harness's stall and marker timeouts mean nothing
        import glob
        import shutil
        import tempfile
        if shutil.which("valgrind"):
            vdir = tempfile.mkdtemp(prefix="vg-", dir=os.path.join(sut.BUILD_ROOT, "run"))
            os.environ["SIRCV_WRAPPER"] = "valgrind --error-exitcode=99 -q --log-file=%s/vg-%%p.log" % vdir
            try:
                outs = fuzz.run(rb, hooks, ctx.seeds(workers, "fuzz-valgrind"), 6, 300, workers)
            finally:
                del os.environ["SIRCV_WRAPPER"]
            vlines = sum(o["lines"] for o in outs)
            res.extra["lines_under_valgrind"] = vlines
            res.evaluations += vlines
            reports = 0
            for f in glob.glob(os.path.join(vdir, "vg-*.log")):
                txt = open(f, errors="replace").read().strip()
                if txt:
                    reports += 1
                    head = [l for l in txt.splitlines() if "==" in l][:12]
                    first = next((l.split("== ", 1)[-1] for l in head if l.split("== ", 1)[-1].strip()), "report")
                    res.findings.append(Finding("valgrind:" + first[:60], "\n".join(head), {"engine": "fuzz", "build": "valgrind"}))
            res.extra["valgrind"] = "no report in %d server processes" % len(glob.glob(os.path.join(vdir, "vg-*.log"))) \
                if not reports else "%d reports" % reports
            shutil.rmtree(vdir, ignore_errors=True)
        else:
            res.extra["valgrind"] = "skipped: not installed"
    # E1 histories with hostile masks: multi-step states (modes, renames, ranks, endings) the line fuzzer
    # rarely builds; only aborts / unexplained closes / ghosts count here
    prof = {"name": "c05-e1", "max_clients": 6, "hostile_masks": True, "stop_props": ["C05"], "invalid_nicks": True,
            "empty_text": 0.05, "boundary_rate": 0.35, "cfg_variants": [{}, {"reg_users": ["cy", "rt", "bob"]}],
            "weights": dict(wallops=5, oper=5, umode=8, nick=8, kill=2, kick=6, cmode=14, who=5, whois=5, names=3,
                            invite=4, topic=3, end=4, quit=2)}
    results, cover, shapes = common.e1_check(ctx, res, prof, n_quick=96, n_thorough=1920, steps=150, steps_thorough=300,
                                             relevant=lambda t: False, nontrivial_rule="")
    res.extra["e1_hostile_steps"] = sum(r["steps"] for r in results)
    # contending registrations (the own-engine interleavings of C02): aborts and unexplained closes found there
    # are handler crashes as well
    import multiprocessing
    from .. import gate
    jobs = [(binary, hooks, False, ctx.seeds(1, "own5")[0], ctx.quick, sh, 8) for sh in range(8)]
    with multiprocessing.Pool(8) as pool:
        oouts = pool.map(gate.own_worker, jobs)
    for o in oouts:
        res.evaluations += o["cases"]
        for sig, detail in o["findings"]:
            if sig in ("own:handler-abort", "own:closed-unexpectedly", "own:owner-lost", "own:observer-lost"):
                res.findings.append(Finding("c05:" + sig, detail, {"engine": "own"}))
    res.extra["registration_interleavings"] = sum(o["cases"] for o in oouts)
    # a peer that stops reading while it is owed a long reply must not stall anybody else (W8 of the storm engine)
    from .. import storm
    sjobs = [(binary, hooks, s, 0, None, None, 3 if ctx.quick else 20, ctx.quick, ["stall", "quitflood", "stall"]) for s in ctx.seeds(4, "c05stall")]
    # W14: every read-only query, pipelined, against pipelined writers (no query may wait for itself)
    sjobs += [(binary, hooks, s, 0, thr, None, 4 if ctx.quick else 25, ctx.quick, ["readers"])
              for s, thr in zip(ctx.seeds(3, "c05readers"), (None, 2, 4))]
    with multiprocessing.Pool(7) as pool:
        souts = pool.map(storm.worker, sjobs)
    for o in souts:
        res.evaluations += o["rounds"]
        res.extra["stalled_reader_rounds"] = res.extra.get("stalled_reader_rounds", 0) + o["rounds"]
        for sig, detail in o["findings"]:
            res.findings.append(Finding("c05:" + sig, detail, {"engine": "storm"}))
        if o["inconclusive"]:
            res.inconclusive += 1
            res.inconclusive_notes.append(o["inconclusive"])
    res.rule = ("grammar + mutation fuzz: every verb x arity 0..max+2 x parameter shape classes (existing / non-existing / own "
                "/ duplicated names, empty, 1 byte, 500 bytes, multi-byte, invalid UTF-8, over-long, wildcard-heavy masks, masks "
                "with literal runs longer than any subject, numeric extremes, sign-switching mode strings with missing/excess "
                "arguments, status-prefix soup) in 12 session states; one line then a marker, so the culprit of an abort is the "
                "last line; oracles: handler-abort sentinel, EOF classifier, bystander ping-pong and message probe, ghost check "
                "at session end; distinct = (verb, arity, session state, set of reply codes)")
    res.floor("lines", n, 20000 if ctx.quick else 400000)
    if hooks:
        res.floor("verbs_dispatched", len(counts), 38)  # read from the server's own per-verb counters (hook)
    res.floor("session_states", len(states), 10)
    res.assumptions = ["debug profile keeps overflow/bounds/unwrap checks on (the sanitizers that matter without unsafe)",
                       "handler sentinel (hook H2) distinguishes handler unwinds from panics of detached timer tasks"]
    return res


def replay(ctx, path):
    print("fuzz findings carry the culprit line in 'detail'; send it by hand in the named session state")
    return common.replay_e1(ctx, path)
