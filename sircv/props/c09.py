"""C09 - KICK, TOPIC and INVITE obey channel rank."""
from ..runner import Result
from . import common

PROFILE = {'name': 'c09', 'max_clients': 6, 'hostile_masks': False, 'weights': {'connect': 6, 'end': 2, 'quit': 1, 'join': 16, 'part': 3, 'kick': 22, 'topic': 16, 'invite': 14, 'cmode': 18, 'umode': 2, 'nick': 2, 'privmsg': 4, 'notice': 2, 'away': 1, 'oper': 1, 'kill': 0.5, 'wallops': 0.5, 'stats': 0.3, 'die': 0.1, 'squit': 0.1, 'names': 1, 'who': 1, 'whois': 1, 'list': 3, 'lusers': 0.5, 'ison': 0.3, 'userhost': 0.3, 'whowas': 0.3, 'chanlist': 0.5, 'cquery': 0.5}, 'mode_weights': {'t': 8, 'i': 8, 'q': 3, 'a': 4, 'o': 6, 'h': 7, 'v': 4, 'k': 1, 'l': 1, 'b': 1, 'e': 0.5, 'I': 0.5}}


def run(ctx):
    res = Result("C09")
    results, cover, shapes = common.e1_check(
        ctx, res, PROFILE, n_quick=128, n_thorough=2560, steps=160, steps_thorough=320,
        relevant=lambda t: t[0] in ('kick', 'topic', 'invite'),
        nontrivial_rule='every actor rank x victim rank; multi-target KICK lists with absent, repeated and own names; actor as last member; unknown channels; empty/non-empty topics and comments on +t/-t channels; invitations to present, absent and unknown users on +i/-i channels followed by JOINs; distinct = (command, outcome, actor rank set, victim rank set | +t | +i)')
    n = sum(c for s, c in shapes.items() if s.startswith(("kick:", "topic:", "invite:")))
    res.extra["kick_topic_invite_commands"] = n
    res.floor("kick_topic_invite_commands", n, 1200)
    res.floor("distinct_rank_cases", len(res.distinct), 60)
    for r in results[:3]:
        if r.get("tail"):
            res.add_sample({"episode_seed": r["seed"], "last_commands": r["tail"]})
    res.assumptions = ["observation at the client sockets with the barrier protocol (DESIGN 2.3)",
                       "snapshot hook reads the state under the server's own lock",
                       "reference model of DESIGN 2.4 encodes the statement; unspecified choices are resynchronised, not judged"]
    # two operators KICK each other / many members set the topic at the same moment
    common.run_storm_kinds(ctx, res, "c09:", ["mutual", "settings"], 20, 150, jobs=3)
    return res


def replay(ctx, path):
    return common.replay_e1(ctx, path)
