"""C07 - JOIN admits exactly those whom key, bans, invitation, limit and quota allow."""
from ..runner import Result
from . import common

PROFILE = {'name': 'c07', 'max_clients': 6, 'hostile_masks': False, 'cfg_variants': [{'max_joins': None}, {'max_joins': 1}, {'max_joins': 2}, {'max_joins': 3}, {'max_joins': 2}], 'weights': {'connect': 6, 'end': 2, 'quit': 1, 'join': 30, 'part': 6, 'kick': 2, 'topic': 2, 'invite': 8, 'cmode': 22, 'umode': 2, 'nick': 3, 'privmsg': 1, 'notice': 0.5, 'away': 1, 'oper': 1, 'kill': 0.5, 'wallops': 0.5, 'stats': 0.3, 'die': 0.1, 'squit': 0.1, 'names': 1, 'who': 1, 'whois': 1, 'list': 0.5, 'lusers': 0.5, 'ison': 0.3, 'userhost': 0.3, 'whowas': 0.3, 'chanlist': 2, 'cquery': 1}, 'mode_weights': {'k': 8, 'l': 8, 'i': 8, 'b': 9, 'e': 6, 'I': 6, 'o': 4, 'h': 2, 'v': 1, 'q': 0.5, 'a': 0.5, 'm': 0.5, 't': 0.5, 'n': 0.5, 's': 1}}


def run(ctx):
    res = Result("C07")
    results, cover, shapes = common.e1_check(
        ctx, res, PROFILE, n_quick=128, n_thorough=2560, steps=160, steps_thorough=320,
        relevant=lambda t: t[0] in ('join', 'create'),
        nontrivial_rule="founders drive channels through random subsets of +k/+l/+i and ban/exception/invite-exception lists built from masks near the candidates' identities, occupancy around the limit, max_joins in {none,1,2,3}, INVITEs; candidates JOIN single and comma lists with per-channel keys; distinct = truth vector (key ok, not banned, invite ok, below limit, below quota) x accepted/refused, decided by the reference glob")
    joins = sum(n for s, n in shapes.items() if s.startswith("join:"))
    vectors = {k for k in res.distinct if k.startswith("('join'")}
    res.extra["join_commands"] = joins
    res.extra["truth_vectors_seen"] = sorted(vectors)
    res.floor("join_commands", joins, 800)
    res.floor("truth_vectors", len(vectors), 14)
    for r in results[:3]:
        if r.get("tail"):
            res.add_sample({"episode_seed": r["seed"], "last_commands": r["tail"]})
    res.assumptions = ["observation at the client sockets with the barrier protocol (DESIGN 2.3)",
                       "snapshot hook reads the state under the server's own lock",
                       "reference model of DESIGN 2.4 encodes the statement; unspecified choices are resynchronised, not judged"]
    # "+l: fewer members than the limit" also when many ask at the same moment (the limit is never exceeded), and
    # simultaneous first joins of one name
    common.run_storm_kinds(ctx, res, "c07:", ["limit", "limit", "firstjoin"], 12, 80, jobs=4, jitter=2000)
    return res


def replay(ctx, path):
    return common.replay_e1(ctx, path)
