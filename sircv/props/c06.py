"""C06 - every way a session ends leaves no trace in the live state."""
import multiprocessing
import random

from .. import e1, sut, world as W
from ..runner import Finding, Result
from . import common

ENDINGS = ["close", "rst", "halfclose", "midline", "badutf8", "toolong", "unread-rst", "QUIT", "KILL", "several"]

PROFILE = {
    "name": "c06", "max_clients": 6, "hostile_masks": False,
    "endings": ["close", "rst", "halfclose", "midline", "badutf8", "toolong", "unread-rst"],
    "weights": dict(connect=14, end=12, quit=5, kill=4, oper=3, join=14, part=3, kick=2, cmode=10, umode=6, nick=4,
                    invite=5, away=2, topic=1, privmsg=3, notice=1, wallops=1, stats=0, die=0, squit=0, names=2, who=1,
                    whois=2, list=1, lusers=2, ison=2, userhost=0.5, whowas=4, chanlist=0.5, cquery=0.5),
    "mode_weights": dict(q=3, a=3, o=5, h=4, v=5, i=3),
}

BASE = {
    "name": "c06-base", "max_clients": 5, "hostile_masks": False, "keep_actions": True,
    "weights": dict(connect=10, end=0, quit=0, kill=0, oper=3, join=16, part=2, kick=1, cmode=12, umode=8, nick=3,
                    invite=6, away=3, topic=2, privmsg=1, notice=0, wallops=0, stats=0, die=0, squit=0, names=0, who=0,
                    whois=0, list=0, lusers=0, ison=0, userhost=0, whowas=0, chanlist=0, cquery=0),
    "mode_weights": dict(q=3, a=3, o=5, h=4, v=5, i=3),
}


def inject(args):
    """replay actions[:p] on a fresh server, apply one ending to one victim, probe"""
    binary, hooks, variant, actions, p, how, seed = args
    rng = random.Random(seed)
    out = dict(findings=[], inconclusive=None, done=False, cls=None)
    scfg, mcfg = e1.base_cfg(binary, **variant)
    srv = sut.Server(binary, scfg, hooks=hooks)
    w = None
    try:
        srv.start()
        w = W.World(srv, mcfg)
        w.start()
        for a in actions[:p]:
            common.apply_action(w, a)
            if w.dead or w.violations:
                return out  # the prefix itself misbehaves: that is another property's business
        live = [cid for cid, c in w.model.conn.items() if cid != 0 and c["nick"] and cid in w.clients]
        if not live:
            return out
        # prefer a victim with attachments (memberships, ranks, modes, invitations)
        live.sort(key=lambda c: -(len(w.model.user_of(c).channels) * 2 + len(w.model.user_of(c).modes)
                                  + len(w.model.user_of(c).invited)))
        victim = live[0] if rng.random() < 0.7 else rng.choice(live)
        vu = w.model.user_of(victim)
        nick, user = vu.nick, vu.user
        out["cls"] = (how, min(len(vu.channels), 3), "".join(sorted(vu.modes)), bool(vu.invited),
                      any(r for cn in vu.channels for r in w.model.chans[cn].members[nick]),
                      any(len(w.model.chans[cn].members) == 1 for cn in vu.channels))
        V0 = len(w.violations)
        if how == "QUIT":
            w.act(victim, {"verb": "QUIT"})
        elif how == "KILL":
            others = [c for c in live if c != victim]
            if not others:
                return out
            k = others[0]
            if not w.model.user_of(k).is_oper:
                w.act(k, {"verb": "OPER", "name": "root", "password": "rootpw"})
            w.act(k, {"verb": "KILL", "nick": nick, "comment": "enum"})
            if nick in w.model.users:
                # the killer could not become operator under this configuration (operator mask): no ending happened
                return out
        elif how == "several":
            vs = live[:3] if len(live) >= 3 else live[:2]
            if len(vs) < 2:
                return out
            nick, user = w.model.user_of(vs[0]).nick, w.model.user_of(vs[0]).user
            w.end_many(vs, [rng.choice(["close", "rst", "midline"]) for _ in vs])
        else:
            w.end_client(victim, how)
        # follow-ups: the nick is free again, WHOWAS knows it, survivors' views agree
        if not w.dead and not w.violations[V0:]:
            w.connect(nick=nick, user=user, realname="again")
            surv = [cid for cid, c in w.model.conn.items() if cid != 0 and c["nick"] and cid in w.clients]
            if surv and not w.dead:
                w.act(surv[0], {"verb": "WHOWAS", "nick": nick})
                for cn in sorted(w.model.chans)[:3]:
                    w.act(surv[0], {"verb": "NAMES", "chans": [cn]})
        for v in w.violations[V0:]:
            out["findings"].append((v.signature.replace("|", "|%s@" % how, 1) if False else
                                    "%s|%s" % (v.signature, how),
                                    "history prefix of %d actions, then %s on %s: %s; last commands %s"
                                    % (p, how, nick, v.detail, w.history[-5:])))
        out["done"] = True
    except W.Inconclusive as ex:
        out["inconclusive"] = "%s; ending %s; last commands %s" % (ex, how, w.history[-4:] if w else None)
    except Exception as ex:  # noqa
        out["inconclusive"] = "harness error %r" % (ex,)
    finally:
        if w is not None:
            w.close()
        srv.stop()
    return out


def run(ctx):
    res = Result("C06", level="fault_enumeration")
    # (1) exploration: E1 histories with endings of every kind mixed in
    results, cover, shapes = common.e1_check(
        ctx, res, PROFILE, n_quick=96, n_thorough=1920, steps=140, steps_thorough=280,
        relevant=lambda t: False, nontrivial_rule="")
    ends = {s: n for s, n in shapes.items() if s.startswith("end:") or s in ("quit", "kill:ok", "kill:ok:self")}
    res.extra["endings_in_random_histories"] = ends
    # (2) fault enumeration: every ending at every sampled position of seeded histories
    binary, hooks = ctx.binary()
    nh = 10 if ctx.quick else 60
    base = e1.run_many(binary, hooks, ctx.seeds(nh, "base"), 36, BASE)
    jobs = []
    rng = random.Random(ctx.seed)
    for bi, b in enumerate(base):
        acts = b.get("actions") or []
        if b["violations"] or b["inconclusive"] or len(acts) < 8:
            continue
        positions = list(range(3, len(acts) + 1))
        if ctx.quick:
            positions = sorted(rng.sample(positions, min(8, len(positions))))
        for p in positions:
            hows = ENDINGS if not ctx.quick else rng.sample(ENDINGS, 4)
            for how in hows:
                jobs.append((binary, hooks, b["variant"], acts, p, how, rng.randrange(1 << 30)))
    with multiprocessing.Pool(16) as pool:
        outs = pool.map(inject, jobs, chunksize=4)
    done = 0
    per_ending = {}
    for o, j in zip(outs, jobs):
        if o["inconclusive"]:
            res.inconclusive += 1
            res.inconclusive_notes.append(o["inconclusive"][:200])
        if o["done"]:
            done += 1
            per_ending[j[5]] = per_ending.get(j[5], 0) + 1
            res.distinct.add(repr(o["cls"]))
        for sig, detail in o["findings"]:
            res.findings.append(Finding(sig, detail, {"engine": "c06-inject", "variant": j[2], "actions": j[3][:j[4]],
                                                      "ending": j[5]}))
    res.evaluations += done
    res.extra["injections_done"] = done
    res.extra["injections_per_ending"] = per_ending
    res.extra["base_histories"] = len(base)
    for b in base[:2]:
        if b.get("tail"):
            res.add_sample({"history_tail": b["tail"], "then": "each ending at each sampled position"})
    # (3) a session whose task is stuck behind its unread output, ended by KILL / close / reset, and the nickname's
    # next owner
    common.run_stuck(ctx, res)
    # the ending that needs real time: five users with ranks, own channels, +w/+i/+o, away text and an invitation fall
    # silent next to bystanders who answer; what is left after ping_timeout + pong_timeout is compared with "the same
    # state without them" (how long it takes is C17's question)
    common.run_idleout(ctx, res, sigs=("idle:ghost", "idle:roster", "idle:no-whowas", "idle:wallops-audience",
                                       "idle:bystander-changed", "idle:invitation", "idle:nick-not-free", "idle:rank-inherited",
                                       "idle:inv:", "idle:state:", "idle:conns", "idle:configured-channel-gone"))
    # a member's leaving in the middle of other members' traffic costs nobody else anything
    common.run_storm_kinds(ctx, res, "c06:", ["quitflood"], 3, 20)
    res.rule = ("(ping timeouts) five users holding ranks, own channels, +w/+i/operator status, away text and an invitation "
                "fall silent (one in mid-line) next to three bystanders who answer every PING; after ping_timeout + pong_timeout "
                "the snapshot must equal the earlier one minus those users (rank lists, WALLOPS audience, counters, empty "
                "channels gone, the configured one kept, bystanders' away/voice/invitation intact), WHOWAS has each of them, "
                "the nickname registers at once and inherits neither rank nor invitation. "
                "(stuck sessions) a client owed ~10 MB of replies stops reading, is KILLed / closes / resets; the nickname "
                "is claimed meanwhile and afterwards: the claimant stays registered, bystanders and channels are untouched, "
                "the ended user's sole channel is gone, invariants hold. "
                "(enumeration) seeded histories of registrations, joins, rank/mode changes, OPER, invitations, away are "
                "replayed on a fresh server up to position p (quick: 8 sampled positions x 4 of the 10 endings, thorough: every "
                "position x all endings), then the ending is applied to the user with most attachments: close at a line "
                "boundary, RST, half-close, mid-line close, invalid UTF-8, over-long line, RST with unread output queued, QUIT, "
                "KILL by an operator, several at once; oracle: model (ending = remove user, WHOWAS record, empty channels "
                "vanish unless preconfigured) vs snapshot restricted to survivors, invariants I1-I8, re-registration under the "
                "freed nick, WHOWAS and NAMES from a survivor; distinct = (ending, #channels, user modes, invitations?, ranked?, "
                "last member?). (exploration) the same endings mixed into random E1 histories")
    res.floor("injections_done", done, 150)
    res.floor("ending_kinds", len(per_ending), 8)
    res.assumptions = ["pong-timeout endings: sircv/idleout.py (real time, 3-5 s timeouts); their timing is judged by C17",
                       "a mid-line close may or may not execute the unterminated line; it is chosen to be harmless"]
    return res


def replay(ctx, path):
    import json
    with open(path) as f:
        d = json.load(f)
    rp = d.get("replay", {})
    if rp.get("engine") == "c06-inject":
        binary, hooks = ctx.binary()
        o = inject((binary, hooks, rp["variant"], rp["actions"], len(rp["actions"]), rp["ending"], 1))
        for f_ in o["findings"][:5]:
            print("  ", f_)
        if o["findings"]:
            print("VIOLATION property=C06 replay=%s" % path)
            return 1
        return 0
    return common.replay_e1(ctx, path)
