"""C13 - lines are framed and parsed by the IRC grammar, and relays re-parse identically."""
from .. import framing, pure
from ..runner import Finding, Result
from . import common

PROFILE = {
    "name": "c13", "forge_prefix": True, "max_clients": 5, "hostile_masks": False, "serial_noise": True, "invalid_nicks": True,
    "empty_text": 0.12,
    "weights": dict(connect=6, end=1, quit=0.5, join=12, part=8, kick=7, topic=9, invite=6, cmode=8, umode=2,
                    nick=8, privmsg=14, notice=8, away=6, oper=2, kill=0.5, wallops=5, stats=0.3, die=0.1, squit=0.1,
                    names=1, who=1, whois=1, list=1, lusers=0.3, ison=0.5, userhost=0.5, whowas=0.5, chanlist=1, cquery=1),
}


def pure_part(ctx, res):
    b = pure.build()
    size = 6 if ctx.quick else 8
    nrand = 200000 if ctx.quick else 3000000
    tot = {}
    for mode in ("parse", "roundtrip", "cmdtable"):
        r = pure.run(b, mode, ctx.seed, size, nrand)
        tot[mode] = r["evaluations"]
        res.evaluations += r["evaluations"]
        for k in r["classes"]:
            res.distinct.add(mode + ":" + k)
        for m in r["mismatches"]:
            res.findings.append(Finding(m["signature"], "%r: got %s, reference grammar says %s"
                                        % (m["input"], m["got"], m["expected"]),
                                        {"engine": "pure", "mode": mode, "input": m["input"]}))
        for s in r["samples"][:2]:
            res.add_sample({"mode": mode, "line": s})
    res.extra["pure_lines_parsed"] = tot["parse"]
    res.extra["pure_roundtrips"] = tot["roundtrip"]
    res.extra["pure_verb_arity_cases"] = tot["cmdtable"]
    res.extra["exhaustive_subspace"] = "all lines over the alphabet {a ':' ' ' '#' 'é'} up to length %d" % size
    if not ctx.quick:
        r, note = pure.run_miri("parse", ctx.seed, 4, 300)
        res.extra["miri_parse"] = note if r is None else {"evaluations": r["evaluations"],
                                                           "mismatch_count": r["mismatch_count"]}
        if r is None and note.startswith("miri UB"):
            res.findings.append(Finding("miri:ub:parse", note, {"engine": "miri"}))
        elif r is None:
            res.inconclusive += 1
            res.inconclusive_notes.append(note[:300])


def run(ctx):
    res = Result("C13")
    pure_part(ctx, res)
    binary, hooks = ctx.binary()
    d = framing.Driver(binary, hooks, ctx.seed).run(ctx.quick)
    res.evaluations += d.cases
    for c in d.classes:
        res.distinct.add("wire:" + c)
    for sig, detail in d.findings:
        res.findings.append(Finding(sig, detail, {"engine": "framing", "seed": ctx.seed}))
    for s in d.samples[:2]:
        res.add_sample(s)
    res.extra["wire_framing_cases"] = d.cases
    res.extra["length_limit_observed"] = {"longest_accepted": d.limit[0], "shortest_rejected": d.limit[1]}
    results, cover, shapes = common.e1_check(
        ctx, res, PROFILE, n_quick=96, n_thorough=1920, steps=150, steps_thorough=300,
        relevant=lambda t: False,
        nontrivial_rule="(pure) Message::from_shared_str / to_string_with_source / Command::from_message of the live "
                        "sources against an independent reference grammar: exhaustive over a 5-letter alphabet plus random "
                        "structured lines, each call under catch_unwind; distinct = line shape class (leading blanks, source, "
                        "trailing, double blanks, inner colon, empty trailing, multi-byte). (wire) framing driver: several "
                        "lines per segment, one byte per segment, LF/CRLF, empty lines, lengths around the limit, verb x arity "
                        "table (461/421), invalid parameters (error and snapshot unchanged). (twin) E1 histories sent in "
                        "random grammar-equivalent serialisations (verb case, blanks, optional source, colon on the last "
                        "parameter) must conform to the same model; every relayed PRIVMSG/NOTICE/TOPIC/PART/KICK/NICK/INVITE/"
                        "WALLOPS/301 is re-parsed and compared with what the originator sent")
    noise = {}
    for r in results:
        for k, v in (r.get("noise") or {}).items():
            noise[k] = noise.get(k, 0) + v
            res.distinct.add("noise:" + k)
    res.extra["serialisation_variants_sent"] = noise
    res.floor("pure_lines_parsed", tot_min(res), 50000)
    res.floor("wire_framing_cases", d.cases, 80)
    res.floor("serialisation_variants", sum(noise.values()), 1000)
    res.assumptions = ["reference grammar written from the statement (RFC 1459/2812 message syntax), blanks = U+0020",
                       "harness compiles /repo/src/command.rs and utils.rs via #[path] (live files, no copy)"]
    return res


def tot_min(res):
    return res.extra.get("pure_lines_parsed", 0)


def replay(ctx, path):
    import json
    with open(path) as f:
        d = json.load(f)
    eng = d.get("replay", {}).get("engine")
    if eng == "pure":
        import subprocess
        b = pure.build()
        out = subprocess.run([b, "eval"], input="P %s\n" % d["replay"]["input"], text=True, capture_output=True).stdout
        print("from_shared_str(%r) -> %s" % (d["replay"]["input"], out.strip()))
        print("VIOLATION property=C13 replay=%s" % path)
        return 1
    if eng == "framing":
        binary, hooks = ctx.binary()
        dr = framing.Driver(binary, hooks, d["replay"]["seed"]).run(True)
        hit = [f for f in dr.findings if f[0] == d["signature"]]
        for f in dr.findings[:5]:
            print("  ", f)
        if hit:
            print("VIOLATION property=C13 replay=%s" % path)
            return 1
        return 0
    return common.replay_e1(ctx, path)
