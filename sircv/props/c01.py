"""C01 - messages reach exactly the addressed audience, once, truly attributed."""
from ..runner import Result
from . import common

PROFILE = {
    "name": "c01", "forge_prefix": True, "max_clients": 6, "hostile_masks": False,
    "weights": dict(privmsg=30, notice=18, join=16, part=5, kick=4, nick=6, cmode=12, end=2, quit=1,
                    connect=7, topic=1, invite=1, umode=1, away=2, oper=0.5, kill=0.5, wallops=0.5,
                    stats=0, die=0, squit=0, names=1, who=0.5, whois=0.5, list=0.3, lusers=0.3, ison=0.2,
                    userhost=0.2, whowas=0.2, chanlist=0.3, cquery=0.3),
}


def run(ctx):
    res = Result("C01")
    results, cover, shapes = common.e1_check(
        ctx, res, PROFILE, n_quick=96, n_thorough=2560, steps=150, steps_thorough=300,
        relevant=lambda t: t[0] == "audience",
        nontrivial_rule="random multi-client histories (join/part/kick/nick/mode/disconnect) interleaved "
                        "with PRIVMSG/NOTICE to mixed target lists; a case is one accepted target; distinct = "
                        "(verb, status-prefixed?, audience size class 0..3+, sender is member) plus the "
                        "target-kind combinations listed under target_shapes; every socket's inbox between two "
                        "barriers is compared with the model's multiset of (prefix, verb, target, text); plus floods of 400-6000 pipelined "
                        "numbered messages to a prompt reader and to a reader with a 4 KB receive buffer that reads nothing until the "
                        "flood is over: every copy exactly once, in order, truly attributed")
    sends = sum(n for s, n in shapes.items() if s.startswith(("privmsg:", "notice:")))
    tshapes = {s for s in shapes if s.startswith(("privmsg:", "notice:"))}
    for s in tshapes:
        res.distinct.add(s)
    res.extra["sends"] = sends
    res.extra["target_shapes"] = sorted(tshapes)[:60]
    res.floor("sends", sends, 300)
    # drain orders: pipelined floods to a prompt reader and to one that reads nothing until the flood is over
    # (its queue backs up inside the server), and numbered per-sender flows: every copy once, in order, attributed
    import multiprocessing
    from .. import storm
    from ..runner import Finding
    binary, hooks = ctx.binary()
    jobs = [(binary, hooks, s, 0, None, None, 10 if ctx.quick else 60, ctx.quick, ["flood", "flood", "fifo", "quitflood", "quitflood"])
            for s in ctx.seeds(8, "flood")]
    with multiprocessing.Pool(8) as pool:
        fouts = pool.map(storm.worker, jobs)
    fl = 0
    for o in fouts:
        fl += o["rounds"]
        res.evaluations += o["rounds"]
        res.extra["flood_events_recorded"] = res.extra.get("flood_events_recorded", 0) + o["events"]
        for sig, detail in o["findings"]:
            res.findings.append(Finding("c01:" + sig, detail, {"engine": "storm-flood"}))
        if o["inconclusive"]:
            res.inconclusive += 1
            res.inconclusive_notes.append(o["inconclusive"])
    res.extra["flood_and_flow_rounds"] = fl
    # "the one user currently owning that nickname": two members asking for one free nickname at the same moment
    common.run_rename_storms(ctx, res, "c01:")
    # "every order in which the receiving connections drain their queues": a receiver that reads nothing until 12 MB wait
    common.run_storm_kinds(ctx, res, "c01:", ["backlog"], 1, 4, jobs=2)
    res.distinct.add("flood:late-reader")
    res.distinct.add("flood:prompt-reader")
    common.sample_histories(res, results, ("PRIVMSG", "NOTICE"))
    if not res.samples:
        res.add_sample({"shapes": sorted(tshapes)[:10]})
    res.assumptions = ["observation at the client sockets; barrier protocol of DESIGN 2.3",
                       "loopback TCP delivers in order"]
    return res


def replay(ctx, path):
    return common.replay_e1(ctx, path)
