"""C17 - keep-alive drops dead peers and keeps live ones."""
import multiprocessing

from .. import clock
from ..runner import Finding, Result


def run(ctx):
    res = Result("C17")
    binary, hooks = ctx.binary()
    res.extra["hooks_available"] = hooks
    if ctx.quick:
        configs = [(1, 1), (1, 2), (2, 1)]
        duration = 9.0
    else:
        configs = [(1, 1), (1, 2), (1, 3), (2, 1), (2, 2), (3, 1), (2, 3)]
        duration = 16.0
    jobs = [(binary, hooks, P, Q, duration + (P + Q), ctx.seed) for P, Q in configs]
    with multiprocessing.Pool(len(jobs)) as pool:
        outs = pool.map(clock.run_config, jobs)
    # a configuration spoilt by scheduling lag of the harness itself is repeated once, alone
    for i, o in enumerate(outs):
        if o["inconclusive"]:
            outs[i] = clock.run_config(jobs[i])
            outs[i]["retried"] = True
    for o in outs:
        res.evaluations += len(o["peers"])
        res.extra.setdefault("events_observed", 0)
        res.extra["events_observed"] += o["events"]
        for c in o["classes"]:
            res.distinct.add(repr(c))
        if o["inconclusive"]:
            res.inconclusive += 1
            res.inconclusive_notes.append(o["inconclusive"])
            continue
        for sig, detail in o["findings"]:
            res.findings.append(Finding(sig, detail, {"engine": "clock", "config": o["config"]}))
        res.add_sample({"ping_timeout,pong_timeout": o["config"], "harness_lag_s": o["lag"], "peers": o["peers"][:4]})
    res.extra["configurations"] = configs
    res.extra["per_config"] = [{"config": o["config"], "lag": o.get("lag"), "peers": o["peers"]} for o in outs]
    res.rule = ("real time, (ping_timeout, pong_timeout) in %s (includes pong >= ping); 34 clients per configuration registered at "
                "staggered phases with response patterns always / never / stops after 2 / late but within pong_timeout / later than ping_timeout but within pong_timeout / later "
                "than pong_timeout / wrong token / unsolicited PONGs / silent on PING but chatting / registering later than ping_timeout after connecting, then answering (or then silent) / re-negotiating capabilities (CAP LS, REQ, END) in mid-session while answering / one late PONG after the second PING (pong_timeout > ping_timeout), then silence / a capability negotiation opened in mid-session and never closed (CAP LS or REQ without END), then silent or answering / answering in the older multi-parameter forms (PONG <server> :<token>, PONG <token> <server>, ...) / not reading while a helper floods it until its handler blocks in a write across the pong deadline, the late PONG queued behind (racy outcome: only aborts and clean-up are judged); every client also sends its "
                "own PINGs; rules on the timestamped socket events: own PING answered by PONG with the same token, a client that "
                "answers every server PING is never dropped during >= 4 cycles, at least floor(T/ping)-1 server PINGs (bounded "
                "progress), a silent client gets ERROR+EOF no later than first unanswered PING + pong_timeout + slack (1 s + "
                "measured harness lag; a run whose lag exceeds 0.5 s is inconclusive), clean-up afterwards (snapshot, WHOWAS); "
                "distinct = (ping, pong, behaviour, dropped?)" % (configs,))
    # "any other traffic on the connection in the meantime": a client with megabytes of messages waiting for it still
    # gets its own PING answered before the backlog is through (workload W10 of the storm engine)
    from . import common
    common.run_storm_kinds(ctx, res, "c17:", ["backlog"], 1, 4, jobs=2)
    res.floor("clients_observed", res.evaluations, 17 * len(configs) - 17 * res.inconclusive)
    res.floor("events_observed", res.extra.get("events_observed", 0), 100)
    stalls = [r for o in outs for p in o["peers"] for r in p.get("stall_rounds", [])]
    res.extra["stalled_reader_rounds"] = dict(started=len(stalls), flood_completed=sum(1 for r in stalls if r.get("flood_done")),
                                              peers_dropped_after=sum(1 for o in outs for p in o["peers"] if p.get("stall_rounds")
                                                                      and p["closed_after"] is not None))
    res.floor("stalled_reader_rounds_completed", res.extra["stalled_reader_rounds"]["flood_completed"], 1)
    res.assumptions = ["minute-scale timeouts (the defaults 120/20 s) run the same code with other constants and are not exercised",
                       "wall-clock verdicts use a slack of 1 s plus the harness's own measured scheduling lag"]
    # "... with the clean-up of C06": silent users with ranks, own channels, modes and invitations next to answering ones
    from . import common
    common.run_idleout(ctx, res, sigs=("idle:not-dropped", "idle:live-peer-dropped", "idle:ghost", "idle:roster", "idle:no-whowas",
                                       "idle:nick-not-free", "idle:inv:", "idle:state:", "idle:conns"))
    return res


def replay(ctx, path):
    print("re-run ./check C17; the finding names the configuration and the client behaviour")
    return 2
