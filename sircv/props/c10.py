"""C10 - speaking restrictions (+n, +m, bans) hold and NOTICE is never answered."""
from ..runner import Result
from . import common

CFG_BANS = [{"name": "#p1", "topic": "configured lists",
             "modes": {"ban": ["al!*@*", "*!~bob@*", "Al!*@*"], "exception": ["*!*@10.*", "cy!*@*"], "voices": ["ed"]}}]
PROFILE = {'name': 'c10', 'cfg_variants': [{}, {}, {'extra_channels': CFG_BANS},
                                           {'extra_channels': [{"name": "#p1", "modes": {"ban": ["*!*@127.0.0.1"],
                                                                                        "exception": ["bo!*@*", "root!*@*"]}}]}],
           'max_clients': 6, 'hostile_masks': False, 'weights': {'connect': 6, 'end': 2, 'quit': 1, 'join': 12, 'part': 3, 'kick': 3, 'topic': 2, 'invite': 2, 'cmode': 22, 'umode': 2, 'nick': 3, 'privmsg': 26, 'notice': 20, 'away': 6, 'oper': 1, 'kill': 0.5, 'wallops': 0.5, 'stats': 0.3, 'die': 0.1, 'squit': 0.1, 'names': 1, 'who': 1, 'whois': 1, 'list': 0.5, 'lusers': 0.5, 'ison': 0.3, 'userhost': 0.3, 'whowas': 0.3, 'chanlist': 0.5, 'cquery': 0.5}, 'mode_weights': {'n': 8, 's': 5, 'm': 8, 'b': 9, 'e': 7, 'v': 7, 'h': 2, 'o': 3, 'k': 0.5, 'l': 0.5, 'i': 0.5, 't': 0.5, 'I': 0.5, 'q': 0.5, 'a': 0.5}}


def run(ctx):
    res = Result("C10")
    results, cover, shapes = common.e1_check(
        ctx, res, PROFILE, n_quick=128, n_thorough=2560, steps=160, steps_thorough=320,
        relevant=lambda t: t[0] in ('speak',),
        nontrivial_rule='all combinations of (member, voiced-or-above, +n, +s, +m, banned, excepted) reached through mode/list/nick/membership histories, PRIVMSG and NOTICE, existing and missing channels and nicks, away set/changed/cleared; NOTICE must draw no numeric at all; distinct = (verb, 7-bit condition vector, delivered?)')
    vec = {k for k in res.distinct}
    res.extra["condition_vectors_seen"] = len(vec)
    sends = sum(n for s, n in shapes.items() if s.startswith(("privmsg:", "notice:")))
    res.extra["sends"] = sends
    res.floor("sends", sends, 1500)
    res.floor("condition_vectors", len(vec), 40)
    for r in results[:3]:
        if r.get("tail"):
            res.add_sample({"episode_seed": r["seed"], "last_commands": r["tail"]})
    res.assumptions = ["observation at the client sockets with the barrier protocol (DESIGN 2.3)",
                       "snapshot hook reads the state under the server's own lock",
                       "reference model of DESIGN 2.4 encodes the statement; unspecified choices are resynchronised, not judged"]
    return res


def replay(ctx, path):
    return common.replay_e1(ctx, path)
