"""C19 - reported statistics and presence are true; connection slots do not leak (statistics part; slots in slots driver)."""
from ..runner import Result
from . import common

PROFILE = {'name': 'c19', 'max_clients': 6, 'hostile_masks': False, 'cfg_variants': [{}, {'default_modes': 'i'}, {'reg_users': ['cy', 'bob']}, {'default_modes': 'O'}, {'max_joins': 2}, {'max_joins': 1, 'default_modes': 'i'}], 'weights': {'connect': 10, 'end': 6, 'quit': 3, 'join': 8, 'part': 5, 'kick': 3, 'topic': 2, 'invite': 2, 'cmode': 8, 'umode': 20, 'nick': 8, 'privmsg': 4, 'notice': 2, 'away': 4, 'oper': 8, 'kill': 2, 'wallops': 0.5, 'stats': 0.3, 'die': 0.1, 'squit': 0.1, 'names': 1, 'who': 1, 'whois': 1, 'list': 0.5, 'lusers': 14, 'ison': 9, 'userhost': 9, 'whowas': 0.3, 'chanlist': 0.5, 'cquery': 0.5}, 'nicks': ['al', 'bo', 'cy', 'root', 'adm', 'di', 'ed']}


def run(ctx):
    res = Result("C19")
    results, cover, shapes = common.e1_check(
        ctx, res, PROFILE, n_quick=128, n_thorough=2560, steps=150, steps_thorough=300,
        relevant=lambda t: t[0] in ('lusers', 'ison', 'userhost'),
        nontrivial_rule="histories rich in +i/-i, +o/-o, +O/-O, repeated OPER, nick changes, channel birth/death and endings of every kind with LUSERS/ISON/USERHOST probes; the welcome burst's LUSERS block is checked on every registration; counters in the snapshot are recounted (I4) and the high-water mark is carried from the history; distinct = (users, invisible, operators, channels, max) tuples seen in LUSERS + ISON/USERHOST answer classes")
    n = sum(c for s, c in shapes.items() if s in ("lusers", "ison", "userhost", "register"))
    res.extra["statistics_probes"] = n
    res.floor("statistics_probes", n, 800)
    from .. import slots
    from ..runner import Finding
    binary, hooks = ctx.binary()
    so = slots.run(binary, hooks, ctx.seed, ctx.quick)
    res.evaluations += so["opened"]
    for c in so["classes"]:
        res.distinct.add("slot:%s" % (c,))
    for sig, detail in so["findings"]:
        res.findings.append(Finding(sig, detail, {"engine": "slots"}))
    if so["inconclusive"]:
        res.inconclusive += 1
        res.inconclusive_notes.append(so["inconclusive"])
    res.extra["slot_rounds"] = so["rounds"]
    res.extra["slot_connections_opened"] = so["opened"]
    for smp in so["samples"][:2]:
        res.add_sample(smp)
    res.floor("slot_rounds", so["rounds"], 12)
    res.rule += ("; slot driver: max_connections in {1,2,5}: open until refused (served = a probe line is answered, refused = "
                 "closed without a word), never more than m served, end random subsets by 11 kinds of ending (registered or "
                 "not, close/RST/QUIT/mid-line/invalid UTF-8/half-close/KILL), reopen: exactly m are served again")
    for r in results[:3]:
        if r.get("tail"):
            res.add_sample({"episode_seed": r["seed"], "last_commands": r["tail"]})
    res.assumptions = ["observation at the client sockets with the barrier protocol (DESIGN 2.3)",
                       "snapshot hook reads the state under the server's own lock",
                       "reference model of DESIGN 2.4 encodes the statement; unspecified choices are resynchronised, not judged"]
    # ISON / USERHOST answers that take several lines while the names change hands: one answer, one state
    common.run_storm_kinds(ctx, res, "c19:", ["queries"], 2, 10, jobs=2)
    # presence and counts after a session that ended late (stuck behind its own socket): the nickname's new owner is
    # listed, nobody is counted twice or not at all
    common.run_stuck(ctx, res, sigs=("stuck:claimant-erased", "stuck:users", "stuck:conns", "stuck:contended-ghost",
                                     "stuck:nick-never-freed"))
    return res


def replay(ctx, path):
    return common.replay_e1(ctx, path)
