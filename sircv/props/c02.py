"""C02 - one owner per nickname; a connection only ever acts as itself."""
import multiprocessing

from .. import gate
from ..runner import Finding, Result
from . import common

PROFILE = {
    "name": "c02", "forge_prefix": True, "max_clients": 6, "hostile_masks": False,
    "cfg_variants": [{}, {"reg_users": ["cy", "bob"]}, {"reg_users": ["al"], "default_modes": "i"}],
    "weights": dict(connect=14, end=8, quit=4, nick=22, join=8, part=2, kick=1, privmsg=8, notice=2, cmode=3, umode=6,
                    oper=2, kill=2, half=5, half_complete=6, half_probe=6, topic=0.5, invite=0.5, away=0.5, wallops=0.5, stats=0, die=0, squit=0, names=1,
                    who=0.5, whois=2, list=0.2, lusers=1, ison=3, userhost=1, whowas=1, chanlist=0, cquery=0),
    "nicks": ["al", "bo", "cy", "di", "Al", "BO"], "generic_skip": ["twins", "prefixtwins"],
}


def run(ctx):
    res = Result("C02", level="fault_enumeration")
    binary, hooks = ctx.binary()
    from ..runner import load_known
    for e in load_known("C02"):
        rp = e.get("reproducer") or {}
        if e.get("status") == "fixed" and rp.get("engine") == "own":
            o = gate.OwnRun(binary, hooks, rp.get("password", False), 1)
            o.run([(tuple(rp["scripts"]), tuple(rp["schedule"]))])
            res.regressions_probed += 1
            for sig, detail in o.findings:
                res.findings.append(Finding("regression:" + e["signature"],
                                            "fixed finding is back (%s): %s" % (e.get("commit"), detail),
                                            {"engine": "own", "job": rp}))
    nsh = 8
    jobs = [(binary, hooks, False, ctx.seeds(1, "own")[0], ctx.quick, sh, nsh) for sh in range(nsh)]
    jobs += [(binary, hooks, True, ctx.seeds(1, "ownpw")[0], ctx.quick, sh, nsh) for sh in range(nsh)]
    with multiprocessing.Pool(16) as pool:
        outs = pool.map(gate.own_worker, jobs)
    steps = 0
    cases = 0
    for o in outs:
        cases += o["cases"]
        steps += o["steps"]
        for c in o["classes"]:
            res.distinct.add(c)
        for (sig, detail), rp in zip(o["findings"], o.get("replays") or [{}] * len(o["findings"])):
            res.findings.append(Finding(sig, detail, {"engine": "own", "job": rp}))
        for s in o["samples"][:1]:
            res.add_sample(s)
        if o["inconclusive"]:
            res.inconclusive += 1
            res.inconclusive_notes.append(o["inconclusive"])
    res.evaluations += cases
    res.extra["interleavings_run"] = cases
    res.extra["interleaving_steps"] = steps
    # E1 histories rich in registrations, nick changes and endings (ownership via I6/I7 + model)
    results, cover, shapes = common.e1_check(
        ctx, res, PROFILE, n_quick=32, n_thorough=1920, steps=150, steps_thorough=300,
        relevant=lambda t: t[0] == "nick",
        nontrivial_rule="")
    # (c) the same contention below command granularity: simultaneous claims / renames with jitter in the lock-release
    # windows (the storm workloads of C18 that concern nickname ownership)
    from .. import storm
    sjobs = [(binary, hooks, s, 2000 if hooks else 0, None, pw, 10 if ctx.quick else 80, ctx.quick, ["claim", "claim", "rename"])
             for s, pw in zip(ctx.seeds(8, "claimstorm"), [None, None, None, None, None, "stormpw", "stormpw", None])]
    with multiprocessing.Pool(8) as pool:
        souts = pool.map(storm.worker, sjobs)
    for o in souts:
        res.evaluations += o["rounds"]
        res.extra["claim_storm_rounds"] = res.extra.get("claim_storm_rounds", 0) + o["rounds"]
        for sig, detail in o["findings"]:
            res.findings.append(Finding("c02:" + sig, detail, {"engine": "storm"}))
        if o["inconclusive"]:
            res.inconclusive += 1
            res.inconclusive_notes.append(o["inconclusive"])
    # (e) nicknames that differ in letter case only are different users
    common.run_case_twins(ctx, res, ("C02",))
    # (d) the widest window between "session declared over" and "session task ends": a stuck session that is KILLed /
    # closed while somebody claims its nickname
    common.run_stuck(ctx, res, sigs=("stuck:claimant-erased", "stuck:claimant-gated", "stuck:claimant-lost",
                                      "stuck:claimant-identity", "stuck:claimant-deaf", "stuck:claimant-closed",
                                      "stuck:users", "stuck:inv:I6", "stuck:inv:I7"))
    res.rule = ("(d) stuck sessions (a client that stopped reading, owed ~10 MB) ended by KILL / close / reset while its "
                "nickname is claimed: the new owner stays the owner; "
                "(a) enumeration of command interleavings: 2-3 connections with scripts over {PASS good/bad, NICK x/y, USER, "
                "CAP LS/END, speak-as-self, JOIN, rename, QUIT, close} contending for 1-2 nicknames, with and without a server "
                "password; all interleavings of the script pairs (thorough) or a seeded sample of 40 per pair (quick); after "
                "every step: registered users == connections welcomed under that nick and still open, never-welcomed "
                "connections are gated (451), every owner still answers, every line the observer hears is attributable to "
                "the owner of its prefix; (b) E1 histories rich in registrations, NICK changes, KILL and endings against the "
                "model (I6/I7); distinct = (script pair, symbol, registered?, reply codes, owners alive)")
    res.floor("interleavings", cases, 300)
    if not res.samples:
        res.add_sample({"scripts": ["nu", "nu"], "schedule": [0, 1, 0, 1, 0, 1, 0, 1]})
    res.assumptions = ["sub-command windows (lock released inside one command) are attacked in C18, not here"]
    return res


def replay(ctx, path):
    import json
    with open(path) as f:
        d = json.load(f)
    rp = d.get("replay", {})
    if rp.get("engine") == "own" and rp.get("job", {}).get("scripts"):
        binary, hooks = ctx.binary()
        j = rp["job"]
        o = gate.OwnRun(binary, hooks, j.get("password", False), 1)
        o.run([(tuple(j["scripts"]), tuple(j["schedule"]))])
        for f_ in o.findings:
            print("  ", f_)
        if o.findings:
            print("VIOLATION property=C02 replay=%s" % path)
            return 1
        print("interleaving conforms")
        return 0
    return common.replay_e1(ctx, path)
