"""C12 - secret channels and invisible users stay hidden from outsiders (runtime self-composition)."""
import multiprocessing
import random

from .. import sut, twin, wire
from ..runner import Finding, Result
from . import common


def scenario(rng):
    variant = rng.choice(["secret", "secret", "secret-preconf", "invisible", "invisible"])
    sc = dict(variant=variant, public=[], hidden=[], queries=[], speak=[], obs_mp=rng.random() < 0.5,
              cfg0={}, cfg1={},
              # the observer may share the USER name / real name with a hidden user: identity is the nickname only
              obs_user=rng.choice(["observer", "ivy", "hside", "pone"]),
              obs_real=rng.choice([None, "Ivy Invisible", "R hs"]))
    pub, hid = sc["public"], sc["hidden"]
    obs_member = rng.random() < 0.6
    for u in ("p1", "p2", "p3", "hs"):
        pub.append(("connect", u))
    pub.append(("connect", "obs"))
    pub += [("p1", "JOIN #pub1"), ("p2", "JOIN #pub1"), ("p3", "JOIN #pub2")]
    if obs_member:
        pub.append(("obs", "JOIN #pub1"))
    if rng.random() < 0.5:
        pub.append(("hs", "JOIN #pub2"))
    if rng.random() < 0.5:
        pub.append(("p1", "TOPIC #pub1 :public topic"))
    if rng.random() < 0.3:
        pub.append(("p2", "MODE p2 +i"))
    if rng.random() < 0.3:
        pub.append(("p1", "MODE #pub1 +v p2"))
    if variant.startswith("secret"):
        members = rng.sample(["p1", "p2", "p3", "hs"], rng.choice([1, 2, 3]))
        if variant == "secret-preconf":
            modes = {"secret": True}
            if rng.random() < 0.5:
                modes["moderated"] = True
            if rng.random() < 0.5:
                modes["operators"] = [members[0]]
            sc["cfg1"] = {"channels": [{"name": "#sec", "topic": rng.choice([None, "preconfigured secret"]),
                                        "modes": modes}]}
            for m in members:
                hid.append((m, "JOIN #sec"))
        else:
            f = members[0]
            hid.append((f, "JOIN #sec"))
            hid.append((f, "MODE #sec +s"))
            for m in members[1:]:
                hid.append((m, "JOIN #sec"))
            if rng.random() < 0.6:
                hid.append((f, "TOPIC #sec :the secret topic"))
            for m in members[1:]:
                if rng.random() < 0.5:
                    hid.append((f, "MODE #sec +%s %s" % (rng.choice("ovhaq"), m)))
            for extra in ("+m", "+i", "+k key", "+l 9", "+b *!*@10.*", "+n", "+t"):
                if rng.random() < 0.2:
                    hid.append((f, "MODE #sec " + extra))
        hidden_nicks = members
        q = ["LIST", "LIST #sec", "LIST #pub1,#sec", "LIST #sec,#pub2", "NAMES", "NAMES #sec", "NAMES #pub1,#sec",
             "NAMES #sec,#nonexistent", "WHO #sec", "WHO *", "WHO #s*", "WHO *sec*", "WHOIS " + members[0],
             "WHOIS %s,%s" % (members[0], "p3"), "WHOIS *", "WHOIS p?", "WHOIS h*", "WHO " + members[0],
             "WHO p*", "WHO *!*@127.0.0.1", "WHO #pub1", "NAMES #pub1", "WHO #nonexistent", "LIST #nonexistent",
             "WHOIS %s,obs" % members[0], "WHOIS obs,%s" % members[0], "NAMES #sec,#pub1,#sec", "LIST #sec,#sec",
             # the same name in another letter case is another (non-existent) channel - in both worlds
             "NAMES #SEC", "NAMES #Sec,#pub1", "LIST #SEC", "WHO #SEC", "NAMES #sEC", "LIST #Sec,#sec", "WHO #Sec"]
        sc["speak"] = ["PRIVMSG #sec :psst", "NOTICE #sec :psst", "PRIVMSG @#sec :psst", "PRIVMSG ~&@%+#sec :psst"]
        sc["sec_members"] = members
    else:
        if rng.random() < 0.4:
            # the hidden user logs in to a predefined account (+r, 307 in WHOIS): the configuration is the same in both
            # worlds, only the session differs
            for key in ("cfg0", "cfg1"):
                sc[key] = dict(sc[key], users=[{"name": "ivy", "nick": "ivy-nick"}])
            sc["variant"] = variant = "invisible-registered"
        hid.append(("connect", "inv"))
        hid.append(("inv", "MODE inv +i"))
        hid.append(("inv", "JOIN #pub2"))
        lobby = rng.random() < 0.4
        if lobby:
            # a channel from the configuration that the observer has left as its last member:
            # having been there does not make it a member when the invisible user comes by later
            for key in ("cfg0", "cfg1"):
                sc[key] = dict(sc[key], channels=[{"name": "#lobby", "topic": "configured"}])
            pub.append(("obs", "JOIN #lobby"))
            pub.append(("obs", rng.choice(["PART #lobby", "PART #lobby :bye", "PART #lobby,#lobby"])))
            hid.append(("inv", "JOIN #lobby"))
        if rng.random() < 0.5:
            # other user modes come and go, +i stays
            hid += [("inv", l) for l in rng.choice([["MODE inv +w", "MODE inv -w"], ["MODE inv +w-w"], ["MODE inv +wi", "MODE inv -w"],
                                                    ["MODE inv -w+w", "MODE inv -w"], ["MODE inv +i", "MODE inv -o-O"]])]
        if rng.random() < 0.35:
            # an invisible server operator is as invisible as anybody (the operator entry is configured in both worlds)
            sc["oper"] = True
            hid.append(("inv", rng.choice(["OPER root rootpw", "OPER root rootpw", "OPER local localpw"])))
            if rng.random() < 0.3:
                hid.append(("inv", "MODE inv +w"))
        if rng.random() < 0.4:
            hid.append(("inv", "AWAY :hidden away"))
        if rng.random() < 0.3:
            hid.append(("p3", "MODE #pub2 +v inv"))
        q = ["NAMES", "NAMES #pub2", "NAMES #pub1,#pub2", "WHO #pub2", "WHO *", "WHO inv", "WHO i*", "WHO in?",
             "WHO *nv", "WHO *!*@127.0.0.1", "WHO *!~ivy@*", "WHO Iv*", "WHO *Invisible", "WHOIS inv", "WHOIS i*",
             "WHOIS inv,p1", "WHOIS *", "WHOIS ??v", "WHO p3", "WHOIS p3", "WHO #pub1",
             # the requester's own nickname next to the hidden one
             "WHOIS inv,obs", "WHOIS obs,inv", "WHOIS i*,obs", "WHOIS *,obs", "WHOIS obs", "WHO obs", "WHOIS obs,obs,inv"]
        if lobby:
            q += ["WHO #lobby", "NAMES #lobby", "WHO inv", "WHOIS inv", "WHO *"]
        sc["speak"] = []
    rng.shuffle(q)
    sc["queries"] = q[:rng.choice([10, 14, 18])]
    # an outsider that tried to get in and was refused is still an outsider: the observer knocks at the door of the
    # hidden user's channel / the secret channel, in both worlds, and is turned away the same way in both
    sc["attempt"] = []
    k = rng.random()
    target = "#sec" if variant.startswith("secret") else "#pub2"
    if k < 0.3:
        # its max_joins quota is used up (the refusal does not depend on the channel at all)
        sc["cfg0"] = dict(sc["cfg0"], max_joins=2)
        sc["cfg1"] = dict(sc["cfg1"], max_joins=2)
        if not obs_member:
            pub.append(("obs", "JOIN #pub1"))
        pub.append(("obs", "JOIN #obsown"))
        sc["attempt"] = [("obs", "JOIN " + target)]
        sc["attempt_kind"] = "quota"
    elif k < 0.45 and variant.startswith("secret"):
        # the observer asks for the nickname of a member of the secret channel and is refused (433): it is still itself
        sc["attempt"] = [("obs", "NICK " + members[0])]
        sc["attempt_kind"] = "nick-taken"
    elif k < 0.5 and not variant.startswith("secret"):
        kind = rng.choice(["key", "invite", "ban"])
        sc["attempt_kind"] = kind
        if kind == "key":
            pub.append(("p3", "MODE #pub2 +k door"))
            hid[:] = [(w_, "JOIN #pub2 door" if l == "JOIN #pub2" else l) for w_, l in hid]
            sc["attempt"] = [("obs", "JOIN #pub2"), ("obs", "JOIN #pub2 wrongkey")]
        elif kind == "invite":
            pub.append(("p3", "MODE #pub2 +i"))
            i = [l for _, l in hid].index("JOIN #pub2")
            hid.insert(i, ("p3", "INVITE inv #pub2"))
            sc["attempt"] = [("obs", "JOIN #pub2")]
        else:
            pub.append(("p3", "MODE #pub2 +b obs!*@*"))
            sc["attempt"] = [("obs", "JOIN #pub2")]
    return sc


USERS = {"p1": "pone", "p2": "ptwo", "p3": "pthree", "hs": "hside", "obs": "observer", "inv": "ivy"}
REAL = {"inv": "Ivy Invisible"}


def run_world(binary, hooks, sc, hidden):
    cfg = dict(sc["cfg1"] if hidden else sc["cfg0"])
    if sc.get("oper"):
        cfg["operators"] = [{"name": "root", "password": sut.password_hash(binary, "rootpw")},
                            {"name": "local", "password": sut.password_hash(binary, "localpw")}]
    with sut.Server(binary, cfg, hooks=hooks) as srv:
        w = twin.ScriptWorld(srv)
        try:
            return _run_world_steps(srv, w, sc, hidden, hooks)
        except wire.Closed as ex:
            aborts = 0
            try:
                aborts = srv.snap()["handler_aborts"] if hooks and srv.alive() else 0
            except (OSError, RuntimeError, ValueError):
                pass
            if aborts:
                raise HandlerAbort("a session handler aborted (%s) during the script; connection closed: %s"
                                   % ((srv.panics()[0] or ["?"])[-1][-160:], ex.kind))
            raise
        finally:
            w.close()


class HandlerAbort(Exception):
    pass


def _run_world_steps(srv, w, sc, hidden, hooks):
    if True:
        try:
            steps = list(sc["public"])
            if hidden:
                # interleave: the hidden history runs after the public set-up (its relative order is kept)
                steps = steps + list(sc["hidden"])
            for who, what in steps:
                if who == "connect":
                    w.connect(what, what, sc["obs_user"] if what == "obs" else USERS[what],
                              caps=["multi-prefix"] if (what == "obs" and sc["obs_mp"]) else None,
                              realname=sc["obs_real"] if what == "obs" else REAL.get(what))
                else:
                    w.do(who, what)
            w.settle()
            refused = True
            for who, what in sc.get("attempt", []):
                lines = w.do(who, what)
                if any(m.verb == "JOIN" for m in lines) or not any(m.is_numeric and m.verb[0] == "4" for m in lines):
                    refused = False
            if not refused:
                raise NotRefused()
            w.settle()
            transcripts = []
            for qline in sc["queries"]:
                lines = w.do("obs", qline)
                transcripts.append(twin.normalise(lines))
            leaked = []
            if hidden and sc["speak"]:
                for line in sc["speak"]:
                    w.do("obs", line)
                got = w.settle()
                for name, lines in got.items():
                    if name != "obs":
                        for m in lines:
                            if m.verb in ("PRIVMSG", "NOTICE") and m.params[-1:] == ["psst"]:
                                leaked.append((name, m.raw))
            aborts = srv.snap()["handler_aborts"] if hooks else 0
            return transcripts, leaked, aborts
        finally:
            w.close()


class NotRefused(Exception):
    """the observer's attempt to get in was not refused: the pair compares nothing"""


def pair(args):
    binary, hooks, seed = args
    rng = random.Random(seed)
    sc = scenario(rng)
    out = dict(findings=[], inconclusive=None, queries=0, classes=[], sample=None)
    try:
        t0, _, a0 = run_world(binary, hooks, sc, False)
    except NotRefused:
        out["inconclusive"] = "twin pair: the observer's %s attempt was not refused" % sc.get("attempt_kind")
        return out
    except HandlerAbort as ex:
        out["findings"].append(("twin:handler-abort", "%s; scenario %s" % (ex, {k: sc[k] for k in ("variant", "public", "queries")})))
        return out
    except (wire.Closed, wire.Timeout, OSError, RuntimeError) as ex:
        out["inconclusive"] = "twin pair (world without the hidden part): %r" % (ex,)
        return out
    try:
        t1, leaked, a1 = run_world(binary, hooks, sc, True)
    except HandlerAbort as ex:
        out["findings"].append(("twin:handler-abort", "%s; hidden history %s" % (ex, sc["hidden"])))
        return out
    except wire.Closed as ex:
        # the same script ran to its end in the world without the hidden part: being cut off is an answer that differs
        out["findings"].append(("twin:%s:observer-dropped" % sc["variant"].split("-")[0],
                                "a connection of the script was closed by the server (%s) only in the world where the hidden "
                                "part exists; hidden history %s, queries %s" % (ex.kind, sc["hidden"], sc["queries"][:6])))
        return out
    except (wire.Timeout, OSError, RuntimeError) as ex:
        out["inconclusive"] = "twin pair: %r" % (ex,)
        return out
    except NotRefused:
        out["inconclusive"] = "twin pair: the observer's %s attempt was not refused" % sc.get("attempt_kind")
        return out
    for q, x0, x1 in zip(sc["queries"], t0, t1):
        out["queries"] += 1
        verb = q.split()[0]
        form = ("none" if len(q.split()) == 1 else "list" if "," in q else
                "mask" if ("*" in q or "?" in q) else "name")
        out["classes"].append((sc["variant"], verb, form, sc["obs_mp"], sc.get("attempt_kind")))
        if x0 != x1:
            only0, only1 = twin.diff_transcripts(x0, x1)
            code = (eval(only1[0])[0] if only1 else eval(only0[0])[0]) if (only0 or only1) else "?"
            out["findings"].append(("twin:%s:%s:%s:%s" % (sc["variant"].split("-")[0], verb, form, code),
                                    "observer query %r answered differently when the hidden part exists: only "
                                    "without %s / only with %s; hidden history %s"
                                    % (q, only0[:3], only1[:3], sc["hidden"])))
    for name, raw in leaked:
        out["findings"].append(("twin:spoke-into-secret", "an outsider's message reached %s: %s; hidden history %s"
                                % (name, raw, sc["hidden"])))
    if a0 or a1:
        out["findings"].append(("twin:handler-abort", "handler aborted during scenario %s" % (sc,)))
    out["sample"] = {"variant": sc["variant"], "hidden_history": sc["hidden"][:6], "queries": sc["queries"][:5]}
    return out


def run(ctx):
    res = Result("C12")
    binary, hooks = ctx.binary()
    res.extra["hooks_available"] = hooks
    common.probe_regressions(ctx, res, binary, hooks)
    n = 320 if ctx.quick else 6000
    with multiprocessing.Pool(16) as pool:
        outs = pool.map(pair, [(binary, hooks, s) for s in ctx.seeds(n, "twin")], chunksize=2)
    pairs = 0
    for o in outs:
        if o["inconclusive"]:
            res.inconclusive += 1
            res.inconclusive_notes.append(o["inconclusive"])
            continue
        pairs += 1
        res.evaluations += o["queries"]
        for c in o["classes"]:
            res.distinct.add(repr(c))
        for sig, detail in o["findings"]:
            res.findings.append(Finding(sig, detail, {"engine": "twin"}))
        if o["sample"]:
            res.add_sample(o["sample"])
    res.extra["world_pairs"] = pairs
    res.rule = ("runtime self-composition: a public history H and a hidden history Hs (a secret channel's creation - by JOIN+MODE "
                "+s or from the configuration -, members, topic, ranks, further modes; or an extra +i client joining a channel the "
                "observer is not on) are generated; world 1 runs H then Hs, world 0 runs H only, on two fresh servers; the same "
                "observer (plain / member of another channel shared with hidden members, multi-prefix on/off) issues 10-18 "
                "LIST/NAMES/WHO/WHOIS queries (explicit names, comma lists, wildcard masks, no argument) in both; transcripts are "
                "normalised (timestamps dropped, lines sorted, 353/319 merged into sets) and must be equal; in world 1 the "
                "observer also speaks into the secret channel with every status prefix and no member may receive it; in half "
                "of the pairs the observer first tries to JOIN the hidden user's channel / the secret channel and is refused in "
                "both worlds (max_joins quota used up, missing or wrong key, invite-only, banned): it stays an outsider; "
                "distinct = (variant, query verb, argument form, multi-prefix)")
    res.floor("world_pairs", pairs, 200)
    res.floor("queries_compared", res.evaluations, 1000)
    res.assumptions = ["LUSERS, LIST member counts of channels an invisible user is on, ISON/USERHOST are outside the statement "
                       "and are not compared (LIST is not queried in the invisible-user variant)"]
    return res


def replay(ctx, path):
    return common.replay_e1(ctx, path)
