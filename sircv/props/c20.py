"""C20 - configuration is validated at start-up and governs behaviour as documented."""
import multiprocessing
import tomllib

from .. import boot, pure, sut
from ..runner import Finding, Result


def doc_label(path):
    return ".".join(str(p) for p in path if not isinstance(p, int))


def run(ctx):
    """process-level probes are timing sensitive on a loaded machine: a finding must reproduce in a second,
    independent run to be reported; one-off differences are counted as inconclusive"""
    from ..runner import load_known
    res = run_once(ctx)
    known_open = {e["signature"] for e in load_known("C20") if e.get("status") == "open"}
    fresh = [f for f in res.findings if f.signature not in known_open]
    if fresh:
        again = run_once(ctx)
        sigs2 = {f.signature for f in again.findings}
        kept = []
        for f in res.findings:
            if f.signature in sigs2 or f.signature in known_open:
                kept.append(f)
            else:
                res.inconclusive += 1
                res.inconclusive_notes.append("not reproduced in a second run: %s: %s" % (f.signature, f.detail[:200]))
        res.findings = kept
        res.extra["second_run_for_confirmation"] = True
    return res


def run_once(ctx):
    res = Result("C20")
    binary, hooks = ctx.binary()
    res.extra["hooks_available"] = hooks
    pool = multiprocessing.Pool(16)
    try:
        # (a) validation at start-up
        n = len(boot.validation_cases(binary))
        vres = pool.map(boot.run_validation_case, [(binary, i) for i in range(n)])
        for v in vres:
            res.evaluations += 1
            res.distinct.add("validation:" + v["label"])
            if v["expected"] == "serve" and not v["served"]:
                res.findings.append(Finding("boot:valid-config-rejected:" + v["label"],
                                            "a valid configuration (%s) did not start: exit %s %s" % (v["label"], v["exit"], v["output"]),
                                            {"engine": "boot"}))
            if v["expected"] == "exit" and (v["served"] or v["exit"] is None):
                res.findings.append(Finding("boot:invalid-config-served:" + v["label"],
                                            "an invalid configuration (%s) was accepted: served=%s exit=%s" % (v["label"], v["served"], v["exit"]),
                                            {"engine": "boot"}))
            if v["expected"] == "exit" and v["exit"] == 0:
                res.findings.append(Finding("boot:invalid-config-exit-0:" + v["label"],
                                            "invalid configuration (%s): the process exited with status 0" % v["label"], {"engine": "boot"}))
        res.extra["validation_cases"] = n
        # (c) every documented key governs behaviour (documentation driven perturbation)
        with open(boot.EXAMPLE, "rb") as f:
            ex = tomllib.load(f)
        paths = [p for p, v in boot.leaves(ex) if p[0] != "tls"]
        kres = pool.map(boot.key_effect_job, [(binary, hooks, p, ctx.seed) for p in paths])
        eff = {}
        for k in kres:
            lab = doc_label(k["path"])
            res.evaluations += 1
            eff[lab] = k["status"] + ("" if k["status"] != "effect" else " (" + ",".join(k["differs_in"][:3]) + ")")
            res.distinct.add("key:" + lab + ":" + k["status"])
            if k["status"] == "inconclusive":
                res.inconclusive += 1
                res.inconclusive_notes.append("key %s: %s" % (lab, k.get("why")))
                continue
            if k["status"] == "no-effect":
                res.findings.append(Finding("boot:documented-key-without-effect:" + lab,
                                            "config-example.toml documents the key '%s' but changing its value from %s to %s changes "
                                            "nothing the probe clients can observe" % (lab, k["old"], k["new"]),
                                            {"engine": "boot", "key": lab}))
            if k["status"] != "skipped" and not k.get("base_ok", True):
                res.findings.append(Finding("boot:example-config-does-not-start",
                                            "the configuration derived from config-example.toml does not start", {"engine": "boot"}))
            for a in k.get("broken_assertions") or []:
                res.findings.append(Finding("boot:setting-not-honoured:" + a[len("assert:"):],
                                            "documented semantics violated under the configuration derived from config-example.toml: " + a,
                                            {"engine": "boot"}))
            if k.get("framing"):
                res.findings.append(Finding("boot:welcome-burst-framing", "mis-framed line in the welcome burst: %s" % k["framing"][:2],
                                            {"engine": "boot"}))
        res.extra["documented_keys"] = eff
    finally:
        pool.close()
        pool.join()
    # (b) a hash printed by -g accepts exactly its password (wire: PASS and OPER; pure: hash/verify round trip)
    hw = boot.hash_wire(binary, hooks, ctx.seed, 5 if ctx.quick else 30)
    for h in hw:
        res.evaluations += 1
        res.distinct.add("hash:%d" % len(h.get("pw", "")))
        if h.get("problem"):
            res.findings.append(Finding("boot:hash-gen", h["problem"], {"engine": "boot"}))
            continue
        if not h["good"][0] or h["good"][1] is False:
            res.findings.append(Finding("boot:hash-rejects-own-password", "password %r: PASS/OPER with the right password "
                                        "refused %s" % (h["pw"], h["good"]), {"engine": "boot"}))
        for x, (ok, operok) in h["bad"]:
            if ok or operok:
                res.findings.append(Finding("boot:hash-accepts-other-password", "hash of %r accepted %r" % (h["pw"], x),
                                            {"engine": "boot"}))
    res.add_sample({"password": hw[0].get("pw"), "near_misses_tried": [b[0] for b in hw[0].get("bad", [])]})
    pb = pure.build()
    pr = pure.run(pb, "hash", ctx.seed, 0, 40 if ctx.quick else 400)
    res.evaluations += pr["evaluations"]
    for m in pr["mismatches"]:
        res.findings.append(Finding(m["signature"], "%s: got %s expected %s" % (m["input"], m["got"], m["expected"]),
                                    {"engine": "pure"}))
    res.extra["pure_hash_verifications"] = pr["evaluations"]
    # predefined users govern registration (password of the user, else the server password; mask): the gate
    # explorer's login sequences under the two configurations with [[users]]
    from .. import gate
    for cfgname in ("users", "srvpw+users", "srvpw"):
        gc = gate.core_worker((binary, hooks, cfgname, ctx.seed))
        res.evaluations += gc["cases"]
        for sig, detail in gc["findings"]:
            res.findings.append(Finding("boot:predefined-users:" + sig, detail, {"engine": "gate"}))
        if gc["inconclusive"]:
            res.inconclusive += 1
            res.inconclusive_notes.append(gc["inconclusive"])
        if cfgname == "srvpw":
            continue
        g = gate.gate_worker((binary, hooks, cfgname, ctx.seed, True, 0, 6))
        res.evaluations += g["cases"]
        res.distinct.add("predefined-users:" + cfgname)
        for sig, detail in g["findings"]:
            res.findings.append(Finding("boot:predefined-users:" + sig, detail, {"engine": "gate"}))
        if g["inconclusive"]:
            res.inconclusive += 1
            res.inconclusive_notes.append(g["inconclusive"])
    # max_connections governs how many connections are served, through every kind of ending (slot driver of C19)
    from .. import slots
    so = slots.run(binary, hooks, ctx.seed, True)
    res.evaluations += so["opened"]
    res.distinct.add("max_connections-slots")
    for sig, detail in so["findings"]:
        res.findings.append(Finding("boot:max_connections:" + sig, detail, {"engine": "slots"}))
    if so["inconclusive"]:
        res.inconclusive += 1
        res.inconclusive_notes.append(so["inconclusive"])
    # (f) command line overrides
    for label, ok in boot.cli_overrides(binary, hooks):
        res.evaluations += 1
        res.distinct.add("cli:" + label)
        if not ok:
            res.findings.append(Finding("boot:cli-override:" + label, "command line option had no effect: " + label,
                                        {"engine": "boot"}))
    # (h) predefined users are registered users, with or without a mask on the account
    for label, ok in boot.account_modes(binary, hooks):
        res.evaluations += 1
        res.distinct.add("account:" + label.split(":")[0])
        if not ok:
            res.findings.append(Finding("boot:predefined-user-modes:" + label, "predefined users: " + label + " - not so",
                                        {"engine": "boot"}))
    # (i) default user modes: each flag's effects on the welcome burst, the counters, the audiences
    for label, ok in boot.default_mode_effects(binary, hooks):
        res.evaluations += 1
        res.distinct.add("defaultmodes:" + label.split(":")[0])
        if not ok:
            res.findings.append(Finding("boot:default-user-modes:" + label.split(":")[1].strip()[:40],
                                        "default user modes: expected '" + label + "' - not so", {"engine": "boot"}))
    # (g) the two keep-alive settings each govern their own interval (the rest of the keep-alive behaviour is C17's)
    tp = boot.timing_probe(binary, hooks)
    res.extra["timing_probe"] = [t[1] for t in tp if t[0] == "ok"]
    for kind, detail in tp:
        res.evaluations += 1
        if kind == "inconclusive":
            res.inconclusive += 1
            res.inconclusive_notes.append(detail)
        elif kind != "ok":
            res.findings.append(Finding("boot:documented-key-without-effect:" + kind, detail, {"engine": "boot"}))
        else:
            res.distinct.add("timing:%d,%d" % detail[:2])
    # (e) MOTD / welcome burst framing
    for m in boot.motd_cases(binary, hooks):
        res.evaluations += 1
        res.distinct.add("motd:" + m["label"])
        if m["bad_frames"] or m["unprefixed"] or not m["motd_lines_in_372"]:
            res.findings.append(Finding("boot:motd-framing:" + m["label"],
                                        "motd %s: mis-framed %s, lines without server prefix %s, every motd line inside a 372: %s"
                                        % (m["label"], m["bad_frames"][:2], m["unprefixed"][:2], m["motd_lines_in_372"]),
                                        {"engine": "boot"}))
    # (d) TLS changes the transport only
    try:
        tls_bin, thooks = ctx.binary(features=("verif", "tls_rustls"))
        t_plain, t_tls = boot.tls_twin(binary, tls_bin, hooks and thooks)
        res.evaluations += len(t_tls)
        res.extra["tls_twin_steps"] = len(t_tls)
        res.distinct.add("tls-twin")
        if len(t_plain) != len(t_tls):
            res.findings.append(Finding("boot:tls-twin-length", "plain and TLS transcripts differ in length (%d vs %d)"
                                        % (len(t_plain), len(t_tls)), {"engine": "boot"}))
        for (l0, x0), (l1, x1) in zip(t_plain, t_tls):
            if l0 != l1 or x0 != x1:
                res.findings.append(Finding("boot:tls-twin:" + l0.split(":")[-1].split(" ")[0],
                                            "step %r: plain %s / TLS %s" % (l0, x0[:3], x1[:3]), {"engine": "boot"}))
                break
        for label, ok in boot.cli_tls(tls_bin):
            res.evaluations += 1
            res.distinct.add("cli:" + label)
            if not ok:
                res.findings.append(Finding("boot:cli-override:" + label, "command line TLS options: " + label + " failed",
                                            {"engine": "boot"}))
        # the reference model does not know about transports: E1 histories over TLS must conform to it as well
        from .. import e1
        prof = {"name": "c20-tls", "tls": True, "max_clients": 4, "hostile_masks": False}
        rs = e1.run_many(tls_bin, hooks and thooks, ctx.seeds(16 if ctx.quick else 160, "tls-e1"), 80, prof)
        tot, cover, shapes, viol = e1.merge(rs)
        res.evaluations += tot["steps"]
        res.extra["tls_e1_steps"] = tot["steps"]
        res.distinct.add("tls-e1")
        for seed, v in viol:
            res.findings.append(Finding("boot:tls-e1:" + v["signature"], "over TLS: " + v["detail"], {"engine": "e1-tls", "seed": seed}))
        for r in rs:
            if r["inconclusive"]:
                res.inconclusive += 1
                res.inconclusive_notes.append("tls e1 seed %s: %s" % (r["seed"], r["inconclusive"][:150]))
    except sut.BuildError as ex:
        res.inconclusive += 1
        res.inconclusive_notes.append("TLS build unavailable: %s" % str(ex)[-200:])
    res.rule = ("(validation) %d configuration files derived from a valid one by one mutation each (server name without dot, "
                "malformed hashes in three places, invalid user/operator/channel names, one of TLS cert/key in file or on the "
                "command line, missing required keys, wrong types) and valid variants: the process must serve iff the "
                "reference validator accepts; (documentation) for every key of config-example.toml (read at run time) a server "
                "with that key's value changed must differ observably from the base server under a fixed probe script (welcome "
                "burst, ADMIN/LINKS/VERSION/MOTD, OPER, JOIN/NAMES/MODE of the predefined channel, a configured user, a plain "
                "member, an outsider, extra connections, log file); (hash) -g output accepts exactly its password via PASS and "
                "OPER, plus the pure hash/verify round trip; (cli) -n -N -p -l -L override the file; (framing) MOTD variants incl. "
                "multi-line; (TLS) the same 30-step script on a plain and a TLS server gives equal transcripts (671 allowed) and E1 histories over TLS conform to the same transport-agnostic model; "
                "distinct = one per case label" % n)
    res.floor("cases", res.evaluations, 120)
    res.assumptions = ["dns_lookup = true needs a resolver (no network) and ping/pong timeouts are second-scale (C17): not probed here",
                       "key names are taken from config-example.toml, the values are chosen by the probe so that the documented "
                       "effect is observable"]
    return res


def replay(ctx, path):
    print("boot findings name the configuration case; re-run ./check C20")
    return 2
