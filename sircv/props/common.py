"""Shared plumbing of the E1 based property checks."""
import ast
import collections

from .. import e1, sut, world as W
from ..runner import Finding, load_known


def apply_action(w, a):
    if a[0] == "connect":
        return w.connect(**a[1])
    if a[0] == "act":
        return w.act(a[1], a[2])
    if a[0] == "end":
        return w.end_client(a[1], a[2])
    if a[0] == "end_many":
        return w.end_many(a[1], a[2])
    if a[0] == "half_open":
        return w.half_open(a[1], a[2])
    if a[0] == "half_complete":
        return w.half_complete(a[1], a[2])
    if a[0] == "half_probe":
        return w.half_probe(a[1], a[2])
    raise ValueError(a[0])


def run_scenario(binary, hooks, scen):
    """scripted E1 history (regression probe / replay); returns (violations, note)"""
    scfg, mcfg = e1.base_cfg(binary, **scen.get("variant", {}))
    srv = sut.Server(binary, scfg, hooks=hooks)
    w = None
    try:
        srv.start()
        w = W.World(srv, mcfg)
        w.start(password=scen.get("variant", {}).get("password"))
        for a in scen["actions"]:
            if w.dead or not srv.alive():
                break
            if a[0] in ("act", "end", "half_complete", "half_probe") and a[1] not in w.clients:
                break  # the scripted actor is gone (the step that lost it has been judged): the script ends here
            apply_action(w, a)
        return [dict(rule=v.rule, props=list(v.props), signature=v.signature, detail=v.detail)
                for v in w.violations], None
    except W.Inconclusive as ex:
        return [], "inconclusive: %s" % ex
    finally:
        if w is not None:
            w.close()
        srv.stop()


def probe_regressions(ctx, res, binary, hooks):
    """replay the reproducers of the findings recorded as fixed for this property"""
    for e in load_known(ctx.prop):
        scen = e.get("reproducer")
        if e.get("status") != "fixed" or not scen or scen.get("engine") != "e1":
            continue
        viol, note = run_scenario(binary, hooks, scen)
        res.regressions_probed += 1
        if note:
            res.inconclusive += 1
            res.inconclusive_notes.append("probe %s: %s" % (e["signature"], note))
            continue
        for v in viol:
            if ctx.prop in v["props"] or v["signature"] == e["signature"]:
                res.findings.append(Finding("regression:" + e["signature"],
                                            "fixed finding is back (%s): %s" % (e.get("commit"), v["detail"]),
                                            {"engine": "e1-scenario", "scenario": scen}))
                break


def e1_check(ctx, res, profile, n_quick, n_thorough, steps, relevant, nontrivial_rule,
             steps_thorough=None, also_props=()):
    binary, hooks = ctx.binary()
    res.extra["hooks_available"] = hooks
    probe_regressions(ctx, res, binary, hooks)
    n = n_quick if ctx.quick else n_thorough
    st = steps if ctx.quick else (steps_thorough or steps)
    mine = (ctx.prop,) + tuple(also_props)
    if "stop_props" not in profile:
        # an episode goes on after a divergence that concerns other properties only (the model resynchronises
        # from the snapshot); it stops at the first one this check has to report
        profile = dict(profile, stop_props=list(mine))
    seeds = ctx.seeds(n, profile.get("name", "e1"))
    results = e1.run_many(binary, hooks, seeds, st, profile)
    tot, cover, shapes, viol = e1.merge(results)
    res.evaluations += tot["steps"]
    for k, cnt in cover.items():
        t = ast.literal_eval(k)
        if relevant(t):
            res.distinct.add(k)
    res.rule = nontrivial_rule
    other = collections.Counter()
    for seed, v in viol:
        if any(p in v["props"] for p in mine):
            r = next(x for x in results if x["seed"] == seed)
            res.findings.append(Finding(v["signature"], v["detail"],
                                        {"engine": "e1", "seed": seed, "steps": st, "profile": profile,
                                         "history": (r.get("history") or [])[-40:]}))
        else:
            other[v["signature"]] += 1
    for r in results:
        if r["inconclusive"]:
            res.inconclusive += 1
            res.inconclusive_notes.append("seed %s: %s" % (r["seed"], r["inconclusive"][:200]))
    for r in results[:3]:
        pass
    if profile.get("generic", True):
        run_generic(ctx, res, skip=profile.get("generic_skip", ()))
    res.extra.update({
        "episodes": tot["episodes"],
        "wire_deliveries_checked": tot["deliveries"],
        "snapshots_walked": tot["snapshots"],
        "command_shapes_seen": len(shapes),
        "top_shapes": dict(shapes.most_common(25)),
        "divergences_attributed_to_other_properties": dict(other),
    })
    return results, cover, shapes


def sample_histories(res, results, want_verbs, k=3):
    """a few literal command lines from the run as samples"""
    n = 0
    for r in results:
        h = r.get("history")
        if h:
            res.add_sample({"episode_seed": r["seed"], "last_commands": h[-6:]})
            n += 1
            if n >= k:
                break


def replay_e1(ctx, path):
    import json
    with open(path) as f:
        data = json.load(f)
    rp = data.get("replay", {})
    binary, hooks = ctx.binary()
    if rp.get("engine") == "e1":
        r = e1.run_episode((binary, hooks, rp["seed"], rp["steps"], rp["profile"]))
        hits = [v for v in r["violations"] if v["signature"] == data["signature"]]
        print("replayed episode seed=%s: %d violations, %d with the recorded signature"
              % (rp["seed"], len(r["violations"]), len(hits)))
        for v in r["violations"][:5]:
            print("  ", v["signature"], "::", v["detail"][:300])
        if hits:
            print("VIOLATION property=%s replay=%s" % (ctx.prop, path))
            return 1
        return 0
    if rp.get("engine") == "e1-scenario":
        viol, note = run_scenario(binary, hooks, rp["scenario"])
        for v in viol[:5]:
            print("  ", v["signature"], "::", v["detail"][:300])
        if viol:
            print("VIOLATION property=%s replay=%s" % (ctx.prop, path))
            return 1
        return 0
    print("unknown replay engine %r" % rp.get("engine"))
    return 2


def big_scenario(n_users=45, n_chans=35):
    """reply chunking boundaries: 353 carries 20 names, 319 30 channels, 302/303 20 nicknames per line"""
    acts = []
    nicks = ["u%02d" % i for i in range(n_users)]
    for i, n in enumerate(nicks):
        acts.append(["connect", {"nick": n, "user": "usr%d" % (i % 7), "multi_prefix": i % 3 == 0}])
    for i in range(n_users - 2):
        acts.append(["act", i + 1, {"verb": "JOIN", "chans": ["#big"]}])
    acts.append(["act", 1, {"verb": "MODE", "target": "#big", "modes": [["+ov", ["u05", "u07"]]]}])
    acts.append(["act", 3, {"verb": "MODE", "target": "u02", "modes": [["+i", []]]}])
    for viewer in (1, 2, n_users - 1, n_users):
        acts.append(["act", viewer, {"verb": "NAMES", "chans": ["#big"]}])
        acts.append(["act", viewer, {"verb": "WHO", "mask": "#big"}])
        acts.append(["act", viewer, {"verb": "WHO", "mask": "u*"}])
    acts.append(["act", 2, {"verb": "ISON", "nicks": nicks + ["nobody1", "nobody2"]}])
    acts.append(["act", 2, {"verb": "USERHOST", "nicks": nicks[:41] + ["nobody"]}])
    chans = ["#c%02d" % i for i in range(n_chans)]
    for k in range(0, n_chans, 5):
        acts.append(["act", n_users, {"verb": "JOIN", "chans": chans[k:k + 5]}])
    acts.append(["act", 1, {"verb": "WHOIS", "masks": [nicks[-1]]}])
    acts.append(["act", n_users, {"verb": "WHOIS", "masks": [nicks[-1], "u0*"]}])
    acts.append(["act", 1, {"verb": "LIST", "chans": []}])
    acts.append(["act", 1, {"verb": "NAMES", "chans": []}])
    acts.append(["act", 5, {"verb": "PRIVMSG", "targets": ["#big", "@#big"], "text": "to all of you"}])
    acts.append(["act", 1, {"verb": "KICK", "chan": "#big", "users": nicks[20:30], "comment": "ten at once"}])
    acts.append(["act", 1, {"verb": "NAMES", "chans": ["#big"]}])
    acts.append(["act", 1, {"verb": "LUSERS"}])
    return {"engine": "e1", "variant": {"preconf": False}, "actions": acts}


def long_names_scenario():
    """nicknames of 150 and channel names of 600 characters (within the advertised NICKLEN / CHANNELLEN): reply lines
    whose lists are chunked by count grow to several thousand bytes and must still carry every member and channel"""
    acts = []
    nicks = ["L%02d" % i + "n" * 147 for i in range(22)]
    chan = "#" + "w" * 590
    for i, n in enumerate(nicks):
        acts.append(["connect", {"nick": n, "user": "lu%d" % (i % 5), "multi_prefix": i % 2 == 0}])
    for i in range(len(nicks) - 1):
        acts.append(["act", i + 1, {"verb": "JOIN", "chans": [chan]}])
    acts.append(["act", 1, {"verb": "MODE", "target": chan, "modes": [["+ov", [nicks[3], nicks[4]]]]}])
    for viewer in (1, 2, len(nicks)):
        acts.append(["act", viewer, {"verb": "NAMES", "chans": [chan]}])
        acts.append(["act", viewer, {"verb": "WHO", "mask": chan}])
    acts.append(["act", 2, {"verb": "ISON", "nicks": nicks[:12]}])
    acts.append(["act", 2, {"verb": "USERHOST", "nicks": nicks[6:18]}])
    many = ["#%02d" % i + "c" * 600 for i in range(7)]
    acts.append(["act", 5, {"verb": "JOIN", "chans": many[:3]}])
    acts.append(["act", 5, {"verb": "JOIN", "chans": many[3:6]}])
    acts.append(["act", 5, {"verb": "JOIN", "chans": many[6:]}])
    acts.append(["act", 1, {"verb": "WHOIS", "masks": [nicks[4]]}])
    acts.append(["act", 5, {"verb": "WHOIS", "masks": [nicks[4]]}])
    acts.append(["act", 6, {"verb": "PART", "chans": [chan]}])
    acts.append(["act", 1, {"verb": "KICK", "chan": chan, "users": nicks[7:10], "comment": "three long ones"}])
    acts.append(["act", 9, {"verb": "NICK", "nick": "M" + "m" * 149}])
    acts.append(["act", 2, {"verb": "NAMES", "chans": [chan]}])
    acts.append(["act", 2, {"verb": "LIST", "chans": []}])
    acts.append(["act", len(nicks), {"verb": "JOIN", "chans": [chan]}])
    return {"engine": "e1", "variant": {"preconf": False}, "actions": acts}


def utf8_mask_scenario():
    """'?' is one character and '*' any run of characters, whatever their length in bytes: ban / exception / invite
    exception masks aimed at a nickname with a two-byte character, then speaking and joining"""
    acts = [["connect", {"nick": "al", "user": "al"}], ["connect", {"nick": "zoé", "user": "zoe"}],
            ["connect", {"nick": "bo", "user": "bob"}]]
    acts.append(["act", 1, {"verb": "JOIN", "chans": ["#u"]}])
    acts.append(["act", 2, {"verb": "JOIN", "chans": ["#u"]}])
    for mask, _ in (("zo?!*@*", True), ("zo??!*@*", False), ("???!*@*", True), ("????!*@*", False), ("z*é!*@*", True),
                    ("zo\u00e9!*@*", True), ("z?!*@*", False)):
        acts.append(["act", 1, {"verb": "MODE", "target": "#u", "modes": [["+b", [mask]]]}])
        acts.append(["act", 2, {"verb": "PRIVMSG", "targets": ["#u"], "text": "may I speak under " + mask}])
        acts.append(["act", 2, {"verb": "NOTICE", "targets": ["#u"], "text": "and be noticed"}])
        acts.append(["act", 1, {"verb": "MODE", "target": "#u", "modes": [["-b", [mask]]]}])
    acts.append(["act", 1, {"verb": "MODE", "target": "#u", "modes": [["+b", ["*!*@*"]]]}])
    for mask in ("zo?!*@*", "zo??!*@*", "??!*@*"):
        acts.append(["act", 1, {"verb": "MODE", "target": "#u", "modes": [["+e", [mask]]]}])
        acts.append(["act", 2, {"verb": "PRIVMSG", "targets": ["#u"], "text": "excepted by " + mask}])
        acts.append(["act", 3, {"verb": "PRIVMSG", "targets": ["#u"], "text": "outside and banned"}])
        acts.append(["act", 1, {"verb": "MODE", "target": "#u", "modes": [["-e", [mask]]]}])
    acts.append(["act", 2, {"verb": "PART", "chans": ["#u"]}])
    acts.append(["act", 1, {"verb": "MODE", "target": "#u", "modes": [["+e", ["zo?!*@*"]]]}])
    acts.append(["act", 2, {"verb": "JOIN", "chans": ["#u"]}])
    acts.append(["act", 3, {"verb": "JOIN", "chans": ["#u"]}])
    acts.append(["act", 1, {"verb": "WHO", "mask": "zo?"}])
    acts.append(["act", 1, {"verb": "WHO", "mask": "zo??"}])
    acts.append(["act", 1, {"verb": "WHOIS", "masks": ["z??"]}])
    return {"engine": "e1", "variant": {"preconf": False}, "actions": acts}


def self_kick_scenario():
    """the last member of a channel kicks itself (an operator left alone; a founder that gave up its founder status):
    the channel is gone - LUSERS, LIST and a later JOIN say so"""
    acts = [["connect", {"nick": "al", "user": "al"}], ["connect", {"nick": "bo", "user": "bob"}],
            ["connect", {"nick": "cy", "user": "cy"}]]
    acts.append(["act", 1, {"verb": "JOIN", "chans": ["#sk"]}])
    acts.append(["act", 2, {"verb": "JOIN", "chans": ["#sk"]}])
    acts.append(["act", 1, {"verb": "MODE", "target": "#sk", "modes": [["+o", ["bo"]]]}])
    acts.append(["act", 1, {"verb": "TOPIC", "chan": "#sk", "text": "dies with the last member"}])
    acts.append(["act", 1, {"verb": "PART", "chans": ["#sk"]}])
    acts.append(["act", 3, {"verb": "LUSERS"}])
    acts.append(["act", 2, {"verb": "KICK", "chan": "#sk", "users": ["bo"], "comment": "myself"}])
    acts.append(["act", 3, {"verb": "LUSERS"}])
    acts.append(["act", 3, {"verb": "LIST", "chans": []}])
    acts.append(["act", 3, {"verb": "JOIN", "chans": ["#sk"]}])
    acts.append(["act", 3, {"verb": "NAMES", "chans": ["#sk"]}])
    acts.append(["act", 1, {"verb": "JOIN", "chans": ["#solo"]}])
    acts.append(["act", 1, {"verb": "MODE", "target": "#solo", "modes": [["-q", ["al"]]]}])
    acts.append(["act", 1, {"verb": "KICK", "chan": "#solo", "users": ["al"], "comment": None}])
    acts.append(["act", 3, {"verb": "LUSERS"}])
    acts.append(["act", 3, {"verb": "LIST", "chans": []}])
    acts.append(["act", 3, {"verb": "KICK", "chan": "#sk", "users": ["cy"], "comment": "and the founder?"}])
    acts.append(["act", 2, {"verb": "LUSERS"}])
    return {"engine": "e1", "variant": {"preconf": False}, "actions": acts}


def run_big(ctx, res, props):
    """run the chunk-boundary scenario; violations tagged with one of `props` are findings"""
    binary, hooks = ctx.binary()
    scen = big_scenario()
    viol, note = run_scenario(binary, hooks, scen)
    res.evaluations += len(scen["actions"])
    res.distinct.add("big-scenario")
    res.extra["big_scenario_steps"] = len(scen["actions"])
    if note:
        res.inconclusive += 1
        res.inconclusive_notes.append("big scenario: " + note)
    for v in viol:
        if set(v["props"]) & set(props):
            res.findings.append(Finding("big:" + v["signature"], v["detail"], {"engine": "e1-scenario", "scenario": scen}))


def run_stuck(ctx, res, sigs=None):
    """the stuck-session cases (sircv/stuck.py): every ending x a few seeds; `sigs`: finding signatures that concern
    the calling property (None = all)"""
    import multiprocessing
    from .. import stuck
    binary, hooks = ctx.binary()
    reps = 2 if ctx.quick else 12
    jobs = [(binary, hooks, s, e) for e in stuck.ENDINGS for s in ctx.seeds(reps, "stuck-" + e)]
    with multiprocessing.Pool(8) as pool:
        outs = pool.map(stuck.run_case, jobs)
    done = 0
    for o in outs:
        if o["inconclusive"]:
            res.inconclusive += 1
            res.inconclusive_notes.append(o["inconclusive"][:200])
            continue
        done += 1
        res.evaluations += 1
        res.distinct.add(repr(o["cls"]))
        for sig, detail in o["findings"]:
            if sigs is None or sig in sigs:
                res.findings.append(Finding(sig, detail, {"engine": "stuck", "ending": o["ending"]}))
    res.extra["stuck_session_cases"] = done
    return done


def run_idleout(ctx, res, sigs=None, only=None):
    """sessions ended by ping timeout next to bystanders who answer (sircv/idleout.py); `sigs`: prefixes of finding
    signatures that concern the calling property (None = all), `only`: the opposite filter"""
    import multiprocessing
    from .. import idleout
    binary, hooks = ctx.binary()
    cfgs = [(3, 2), (4, 1)] if ctx.quick else [(3, 2), (4, 1), (3, 3), (5, 2), (3, 1), (4, 4)]
    jobs = [(binary, hooks, ctx.seed, P, Q) for P, Q in cfgs]
    with multiprocessing.Pool(len(jobs)) as pool:
        outs = pool.map(idleout.run_case, jobs)
    for o in outs:
        if o["inconclusive"]:
            res.inconclusive += 1
            res.inconclusive_notes.append(o["inconclusive"][:200])
            continue
        res.evaluations += o["events"]
        res.distinct.add(repr(o["cls"]))
        for sig, detail in o["findings"]:
            if sigs is None or any(sig.startswith(x) for x in sigs):
                res.findings.append(Finding(sig, detail, {"engine": "idleout", "config": o["cls"]}))
    res.extra["ping_timeout_endings"] = res.extra.get("ping_timeout_endings", 0) + 5 * sum(1 for o in outs if not o["inconclusive"])


def case_twin_scenario():
    """users whose nicknames differ in letter case only are different users: each aims user-mode changes, OPER-gained
    status and queries at the others"""
    acts = [["connect", {"nick": "root", "user": "rt"}], ["connect", {"nick": "Root", "user": "rtcap"}],
            ["connect", {"nick": "ROOT", "user": "r3"}], ["connect", {"nick": "al", "user": "al"}]]
    acts.append(["act", 2, {"verb": "OPER", "name": "root", "password": "rootpw"}])
    acts.append(["act", 2, {"verb": "MODE", "target": "Root", "modes": [["+iw", []]]}])
    for actor in (1, 3, 4):
        for ms in ("-o", "+i-w", "-i", "+o", "-O", "+w", "-r"):
            for target in ("Root", "root", "ROOT"):
                acts.append(["act", actor, {"verb": "MODE", "target": target, "modes": [[ms, []]]}])
        acts.append(["act", actor, {"verb": "MODE", "target": "Root", "modes": []}])
    acts.append(["act", 2, {"verb": "MODE", "target": "Root", "modes": []}])
    acts.append(["act", 4, {"verb": "WHOIS", "masks": ["Root", "root", "ROOT"]}])
    acts.append(["act", 4, {"verb": "USERHOST", "nicks": ["Root", "root", "ROOT"]}])
    acts.append(["act", 1, {"verb": "KILL", "nick": "Root", "comment": "not an operator"}])
    acts.append(["act", 2, {"verb": "KILL", "nick": "ROOT", "comment": "by the operator"}])
    acts.append(["act", 1, {"verb": "LUSERS"}])
    # a NICK onto the twin's exact spelling is a NICK onto a nickname in use (433); a change of letter case to a free
    # spelling is an ordinary rename - the counters and presence answers stay true either way
    acts.append(["act", 2, {"verb": "MODE", "target": "Root", "modes": [["+i", []]]}])
    acts.append(["act", 1, {"verb": "NICK", "nick": "Root"}])
    acts.append(["act", 4, {"verb": "LUSERS"}])
    acts.append(["act", 4, {"verb": "ISON", "nicks": ["root", "Root", "ROOT", "al", "AL"]}])
    acts.append(["act", 4, {"verb": "NICK", "nick": "AL"}])
    acts.append(["act", 2, {"verb": "NICK", "nick": "root"}])
    acts.append(["act", 1, {"verb": "ISON", "nicks": ["root", "Root", "ROOT", "al", "AL"]}])
    acts.append(["act", 1, {"verb": "USERHOST", "nicks": ["root", "Root", "al", "AL"]}])
    acts.append(["act", 1, {"verb": "LUSERS"}])
    return {"engine": "e1", "variant": {"preconf": False}, "actions": acts}


def prefix_twin_scenario():
    """nicknames of which one is a prefix of the other, at ordinary lengths and around the advertised NICKLEN (200):
    nothing truncates silently - the longer one's owner speaks, is marked away and leaves as itself"""
    v200 = "v" * 200
    acts = [["connect", {"nick": v200, "user": "vic"}], ["connect", {"nick": "mal", "user": "mal"}],
            ["connect", {"nick": "al", "user": "al"}], ["connect", {"nick": "alx", "user": "alx"}]]
    acts.append(["act", 1, {"verb": "JOIN", "chans": ["#p"]}])
    acts.append(["act", 3, {"verb": "JOIN", "chans": ["#p"]}])
    for long_nick in (v200 + "x", v200 + "xy" * 30):
        acts.append(["act", 2, {"verb": "NICK", "nick": long_nick}])
        acts.append(["act", 2, {"verb": "PRIVMSG", "targets": ["al", "#p"], "text": "who am I"}])
        acts.append(["act", 2, {"verb": "AWAY", "text": "gone"}])
        acts.append(["act", 3, {"verb": "WHOIS", "masks": [v200]}])
        acts.append(["act", 3, {"verb": "USERHOST", "nicks": [v200, long_nick]}])
        acts.append(["act", 2, {"verb": "MODE", "target": long_nick, "modes": [["+i", []]]}])
        acts.append(["act", 2, {"verb": "MODE", "target": v200, "modes": [["+i", []]]}])
        acts.append(["act", 2, {"verb": "JOIN", "chans": ["#p"]}])
        acts.append(["act", 3, {"verb": "NAMES", "chans": ["#p"]}])
        acts.append(["act", 2, {"verb": "PART", "chans": ["#p"]}])
        acts.append(["act", 2, {"verb": "AWAY", "text": None}])
        acts.append(["act", 2, {"verb": "MODE", "target": long_nick, "modes": [["-i", []]]}])
    acts.append(["act", 4, {"verb": "NICK", "nick": "al"}])        # taken
    acts.append(["act", 4, {"verb": "PRIVMSG", "targets": ["al"], "text": "from alx"}])
    acts.append(["act", 2, {"verb": "QUIT"}])
    acts.append(["act", 3, {"verb": "ISON", "nicks": [v200, "al", "alx"]}])
    acts.append(["connect", {"nick": v200 + "x", "user": "new"}])
    acts.append(["act", 4, {"verb": "QUIT"}])
    acts.append(["act", 3, {"verb": "LUSERS"}])
    return {"engine": "e1", "variant": {"preconf": False}, "actions": acts}


def run_case_twins(ctx, res, props):
    binary, hooks = ctx.binary()
    if "C02" in props:
        pscen = prefix_twin_scenario()
        viol, note = run_scenario(binary, hooks, pscen)
        res.evaluations += len(pscen["actions"])
        res.distinct.add("prefix-twin-scenario")
        if note:
            res.inconclusive += 1
            res.inconclusive_notes.append("prefix twins: " + note)
        for v in viol:
            res.findings.append(Finding("prefixtwins:" + v["signature"], v["detail"][:600],
                                        {"engine": "e1-scenario", "scenario": pscen}))
    scen = case_twin_scenario()
    viol, note = run_scenario(binary, hooks, scen)
    res.evaluations += len(scen["actions"])
    res.distinct.add("case-twin-scenario")
    res.extra["case_twin_steps"] = len(scen["actions"])
    if note:
        res.inconclusive += 1
        res.inconclusive_notes.append("case twins: " + note)
    for v in viol:
        if set(v["props"]) & set(props):
            res.findings.append(Finding("twins:" + v["signature"], v["detail"], {"engine": "e1-scenario", "scenario": scen}))


def rank_matrix_scenario():
    """every rank against every rank: a founder hands out ranks with MODE, then each member tries to KICK each other
    member (the victim comes back and gets its rank again), sets the topic of the +t channel and invites to the +i
    channel; the model decides who may"""
    ranks = {"rq": "q", "ra": "a", "ro": "o", "rh": "h", "rv": "v", "rn": "", "roh": "oh", "rav": "av", "rhv": "hv"}
    acts = [["connect", {"nick": "fo", "user": "fo"}]]
    cid = {"fo": 1}
    for k, n in enumerate(ranks):
        acts.append(["connect", {"nick": n, "user": n, "multi_prefix": k % 2 == 0}])
        cid[n] = k + 2
    acts.append(["connect", {"nick": "out", "user": "out"}])
    cid["out"] = len(ranks) + 2
    acts.append(["act", 1, {"verb": "JOIN", "chans": ["#rk"]}])
    acts.append(["act", 1, {"verb": "MODE", "target": "#rk", "modes": [["+ti", []]]}])

    def grant(n):
        out = [["act", 1, {"verb": "INVITE", "nick": n, "chan": "#rk"}], ["act", cid[n], {"verb": "JOIN", "chans": ["#rk"]}]]
        if ranks[n]:
            out.append(["act", 1, {"verb": "MODE", "target": "#rk", "modes": [["+" + ranks[n], [n] * len(ranks[n])]]}])
        return out
    for n in ranks:
        acts += grant(n)
    for actor in list(ranks):
        for victim in list(ranks) + ["fo"]:
            if victim == actor:
                continue
            acts.append(["act", cid[actor], {"verb": "KICK", "chan": "#rk", "users": [victim], "comment": "rank matrix"}])
            # whoever was removed comes back with its rank (a no-op for those still there: 443 / already a member)
            if victim != "fo":
                acts += grant(victim)
        acts.append(["act", cid[actor], {"verb": "TOPIC", "chan": "#rk", "text": "by " + actor}])
        acts.append(["act", cid[actor], {"verb": "INVITE", "nick": "out", "chan": "#rk"}])
        acts.append(["act", cid[actor], {"verb": "MODE", "target": "#rk", "modes": [["+v-v", ["rn", "rn"]]]}])
    acts.append(["act", 1, {"verb": "NAMES", "chans": ["#rk"]}])
    return {"engine": "e1", "variant": {"preconf": False}, "actions": acts}


def run_rank_matrix(ctx, res, props):
    binary, hooks = ctx.binary()
    scen = rank_matrix_scenario()
    viol, note = run_scenario(binary, hooks, scen)
    res.evaluations += len(scen["actions"])
    res.distinct.add("rank-matrix-scenario")
    res.extra["rank_matrix_steps"] = len(scen["actions"])
    if note:
        res.inconclusive += 1
        res.inconclusive_notes.append("rank matrix: " + note)
    for v in viol:
        if set(v["props"]) & set(props):
            res.findings.append(Finding("ranks:" + v["signature"], v["detail"], {"engine": "e1-scenario", "scenario": scen}))


def whowas_scenario():
    """one nickname used by twelve sessions in a row, ended in every way (QUIT, close, reset, mid-line, KILL, renaming
    away): every one of them leaves its WHOWAS record, however long the history gets"""
    acts = [["connect", {"nick": "keeper", "user": "kp"}], ["act", 1, {"verb": "OPER", "name": "root", "password": "rootpw"}]]
    cid = 1
    kinds = ["QUIT", "close", "rst", "midline", "KILL", "rename", "QUIT", "close", "KILL", "rename", "rst", "QUIT"]
    for i, how in enumerate(kinds):
        cid += 1
        acts.append(["connect", {"nick": "rover", "user": "u%02d" % i}])
        if i % 3 == 0:
            acts.append(["act", cid, {"verb": "JOIN", "chans": ["#rv"]}])
        if how == "QUIT":
            acts.append(["act", cid, {"verb": "QUIT"}])
        elif how == "KILL":
            acts.append(["act", 1, {"verb": "KILL", "nick": "rover", "comment": "again"}])
        elif how == "rename":
            acts.append(["act", cid, {"verb": "NICK", "nick": "moved%d" % i}])
        else:
            acts.append(["end", cid, how])
        if i in (7, 9, 11):
            acts.append(["act", 1, {"verb": "WHOWAS", "nick": "rover"}])
    acts.append(["act", 1, {"verb": "WHOWAS", "nick": "rover", "count": 3}])
    # ... and one user that goes back and forth between two nicknames seventy times: every release is recorded, the
    # newest first, "repeated any number of times"
    cid += 1
    acts.append(["connect", {"nick": "ping", "user": "pp"}])
    acts.append(["act", cid, {"verb": "JOIN", "chans": ["#rv"]}])
    for i in range(70):
        acts.append(["act", cid, {"verb": "NICK", "nick": "pong"}])
        acts.append(["act", cid, {"verb": "NICK", "nick": "ping"}])
        if i in (15, 31, 32, 33, 63, 64, 65, 69):
            acts.append(["act", 1, {"verb": "WHOWAS", "nick": "ping"}])
            acts.append(["act", 1, {"verb": "WHOWAS", "nick": "pong", "count": 2}])
    acts.append(["act", 1, {"verb": "LUSERS"}])
    return {"engine": "e1", "variant": {"preconf": False}, "actions": acts}


_GENERIC_DONE = set()


def run_generic(ctx, res, skip=()):
    """every deterministic scenario of this module, judged for the calling property only (a few seconds altogether):
    chunk-size scenario, rank matrix, case twins, prefix twins.  What each was written for is noted at its definition;
    run everywhere, a change behind one property that only a sibling's scenario happens to reach is still reported by
    the property it belongs to."""
    binary, hooks = ctx.binary()
    for name, scen in (("big", big_scenario), ("ranks", rank_matrix_scenario), ("twins", case_twin_scenario),
                       ("prefixtwins", prefix_twin_scenario), ("whowas", whowas_scenario),
                       ("longnames", long_names_scenario), ("utf8masks", utf8_mask_scenario),
                       ("selfkick", self_kick_scenario)):
        if name in skip or (ctx.prop, name) in _GENERIC_DONE:
            continue
        _GENERIC_DONE.add((ctx.prop, name))
        sc = scen()
        viol, note = run_scenario(binary, hooks, sc)
        res.evaluations += len(sc["actions"])
        res.distinct.add("scenario:" + name)
        if note:
            res.inconclusive += 1
            res.inconclusive_notes.append("%s scenario: %s" % (name, note))
        for v in viol:
            if ctx.prop in v["props"]:
                res.findings.append(Finding("%s:%s" % (name, v["signature"]), v["detail"][:600],
                                            {"engine": "e1-scenario", "scenario": sc}))


def run_storm_kinds(ctx, res, prefix, kinds, rounds_quick, rounds_thorough, jobs=4, jitter=0):
    """a few storm rounds of the given kinds, findings reported under the calling property"""
    import multiprocessing
    from .. import storm
    binary, hooks = ctx.binary()
    sjobs = [(binary, hooks, s, jitter if hooks else 0, None, None, rounds_quick if ctx.quick else rounds_thorough, ctx.quick,
              list(kinds)) for s in ctx.seeds(jobs, "storm-" + "-".join(kinds))]
    with multiprocessing.Pool(jobs) as pool:
        souts = pool.map(storm.worker, sjobs)
    for o in souts:
        res.evaluations += o["rounds"]
        key = "storm_rounds_" + "_".join(kinds)
        res.extra[key] = res.extra.get(key, 0) + o["rounds"]
        for sig, detail in o["findings"]:
            res.findings.append(Finding(prefix + sig, detail, {"engine": "storm"}))
        if o["inconclusive"]:
            res.inconclusive += 1
            res.inconclusive_notes.append(o["inconclusive"])


def run_rename_storms(ctx, res, prefix):
    """simultaneous renames of members of one channel to one nickname (half of them queued behind an OPER that holds the
    state lock): one winner, one announcement, everybody listed once under the nickname it now has"""
    import multiprocessing
    from .. import storm
    binary, hooks = ctx.binary()
    sjobs = [(binary, hooks, s, 2000 if hooks else 0, None, None, 25 if ctx.quick else 150, ctx.quick, ["rename"])
             for s in ctx.seeds(8, "renamestorm")]
    with multiprocessing.Pool(8) as pool:
        souts = pool.map(storm.worker, sjobs)
    for o in souts:
        res.evaluations += o["rounds"]
        res.extra["rename_storm_rounds"] = res.extra.get("rename_storm_rounds", 0) + o["rounds"]
        for sig, detail in o["findings"]:
            res.findings.append(Finding(prefix + sig, detail, {"engine": "storm"}))
        if o["inconclusive"]:
            res.inconclusive += 1
            res.inconclusive_notes.append(o["inconclusive"])
