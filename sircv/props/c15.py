"""C15 - a nick change moves the whole identity and nothing else."""
from ..runner import Result
from . import common

PROFILE = {'name': 'c15', 'invalid_nicks': True, 'max_clients': 5, 'hostile_masks': False, 'mp_rate': 0.5, 'cfg_variants': [{}, {'default_modes': 'w'}, {'default_modes': 'i'}], 'weights': {'connect': 6, 'end': 2, 'quit': 1, 'join': 14, 'part': 4, 'kick': 3, 'topic': 2, 'invite': 6, 'cmode': 10, 'umode': 8, 'nick': 30, 'privmsg': 3, 'notice': 2, 'away': 5, 'oper': 4, 'kill': 0.5, 'wallops': 4, 'stats': 0.3, 'die': 0.1, 'squit': 0.1, 'names': 3, 'who': 1, 'whois': 3, 'list': 0.5, 'lusers': 0.5, 'ison': 0.3, 'userhost': 0.3, 'whowas': 4, 'chanlist': 0.5, 'cquery': 0.5}, 'mode_weights': {'q': 3, 'a': 3, 'o': 6, 'h': 5, 'v': 6, 'i': 4}}


def run(ctx):
    res = Result("C15")
    results, cover, shapes = common.e1_check(
        ctx, res, PROFILE, n_quick=128, n_thorough=2560, steps=150, steps_thorough=300,
        relevant=lambda t: t[0] in ('nick',),
        nontrivial_rule='users built up to rich states (several channels with different ranks, +i +w, OPER, away, invitations), then NICK to {free, own current, taken, previously used}, chains a->b->a; snapshot compares every nick-keyed container (members, five rank sets, wallops audience, invitations, WHOWAS); distinct = (outcome, #channels, user modes, away?, invitations pending?, target nick used before?)')
    n = sum(c for s, c in shapes.items() if s.startswith("nick:"))
    ok = shapes.get("nick:ok", 0)
    res.extra["nick_commands"] = n
    res.extra["accepted_nick_changes"] = ok
    res.floor("accepted_nick_changes", ok, 400)
    for r in results[:3]:
        if r.get("tail"):
            res.add_sample({"episode_seed": r["seed"], "last_commands": r["tail"]})
    res.assumptions = ["observation at the client sockets with the barrier protocol (DESIGN 2.3)",
                       "snapshot hook reads the state under the server's own lock",
                       "reference model of DESIGN 2.4 encodes the statement; unspecified choices are resynchronised, not judged"]
    # "a NICK naming a nickname held by another user is refused": also when two ask for the same free nickname at once
    common.run_rename_storms(ctx, res, "c15:")
    return res


def replay(ctx, path):
    return common.replay_e1(ctx, path)
