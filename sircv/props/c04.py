"""C04 - channel membership is one consistent relation that follows the history."""
from ..runner import Finding, Result
from . import common

PROFILE = {'name': 'c04', 'cfg_variants': [{}, {}, {'max_joins': 2}, {'max_joins': 1}], 'max_clients': 6, 'hostile_masks': False, 'mp_rate': 0.5, 'weights': {'connect': 6, 'end': 3, 'quit': 2, 'join': 18, 'part': 8, 'kick': 6, 'topic': 2, 'invite': 2, 'cmode': 8, 'umode': 4, 'nick': 7, 'privmsg': 4, 'notice': 2, 'away': 1, 'oper': 1, 'kill': 0.5, 'wallops': 0.5, 'stats': 0.3, 'die': 0.1, 'squit': 0.1, 'names': 9, 'who': 9, 'whois': 9, 'list': 0.5, 'lusers': 0.5, 'ison': 0.3, 'userhost': 0.3, 'whowas': 0.3, 'chanlist': 0.5, 'cquery': 2}, 'mode_weights': {'s': 6, 'q': 3, 'a': 3, 'o': 5, 'h': 4, 'v': 5}}


def run(ctx):
    res = Result("C04")
    results, cover, shapes = common.e1_check(
        ctx, res, PROFILE, n_quick=128, n_thorough=2560, steps=150, steps_thorough=300,
        relevant=lambda t: t[0] in ('names', 'who', 'whois', 'nick', 'part-last', 'create', 'kick'),
        nontrivial_rule="random histories of joins (single and comma lists), parts, kicks, nick changes, quits and abrupt closes over 3-5 channels with +i users, +s channels and multi-prefix on/off; after every step all sockets' announcements are compared with the model and the snapshot (I1/I2 + roster equality); NAMES/WHO/WHOIS probes are checked between visibility bounds; distinct = (probe kind, viewer is member, secret, invisible members present | nick/kick/part outcome class)")
    probes = sum(n for s, n in shapes.items() if s in ("names", "who", "whois"))
    changes = sum(n for s, n in shapes.items() if s.startswith(("join:", "part", "kick:", "nick:", "end:", "quit")))
    res.extra["view_probes"] = probes
    res.extra["membership_changes"] = changes
    res.extra["announcement_derived_roster_checks"] = sum(r.get("derived_checks", 0) for r in results)
    res.floor("view_probes", probes, 300)
    res.floor("membership_changes", changes, 500)
    common.run_rename_storms(ctx, res, "c04:")
    # members leaving while others' commands fan out (announcements and messages use the same loops): nobody who stays
    # misses a line because somebody else was just going
    common.run_storm_kinds(ctx, res, "c04:", ["quitflood", "churn", "firstjoin"], 6, 40)
    for r in results[:3]:
        if r.get("tail"):
            res.add_sample({"episode_seed": r["seed"], "last_commands": r["tail"]})
    res.assumptions = ["observation at the client sockets with the barrier protocol (DESIGN 2.3)",
                       "snapshot hook reads the state under the server's own lock",
                       "reference model of DESIGN 2.4 encodes the statement; unspecified choices are resynchronised, not judged"]
    # a member whose nickname used to belong to a session that is only now ending stays a member
    common.run_stuck(ctx, res, sigs=("stuck:claimant-erased", "stuck:claimant-membership-erased", "stuck:claimant-views-disagree",
                                     "stuck:claimant-inherited-rank", "stuck:bystanders-changed", "stuck:contended-ghost-member",
                                     "stuck:inv:I1", "stuck:inv:I2", "stuck:inv:I3"))
    return res


def replay(ctx, path):
    return common.replay_e1(ctx, path)
