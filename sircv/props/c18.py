"""C18 - per-connection order is kept and concurrent commands take effect atomically."""
import multiprocessing

from .. import storm
from ..runner import Finding, Result


def run(ctx):
    res = Result("C18")
    binary, hooks = ctx.binary()
    res.extra["hooks_available"] = hooks
    jobs = []
    seeds = ctx.seeds(48, "storm")
    if ctx.quick:
        plan = [(2000, None, None, 60)] * 8 + [(500, 4, None, 50)] * 2 + [(2000, None, "stormpw", 40)] * 4 + [(0, None, None, 50)] * 2
    else:
        plan = [(2000, None, None, 300)] * 8 + [(300, 2, None, 200)] * 2 + [(5000, 1, None, 100)] + [(2000, None, "stormpw", 200)] * 3 \
            + [(0, None, None, 200)] * 2
    for i, (jit, thr, pw, rounds) in enumerate(plan):
        jobs.append((binary, hooks, seeds[i], jit if hooks else 0, thr, pw, rounds, ctx.quick))
    # the claim / rename races proper get their own jobs (the mixed jobs above spend most rounds on other workloads)
    for k in range(4):
        jobs.append((binary, hooks, seeds[42 + k], (2000, 500, 5000, 0)[k] if hooks else 0, (None, 4, None, 2)[k],
                     "stormpw" if k == 2 else None, 30 if ctx.quick else 200, ctx.quick, ["claim", "claim", "claim", "rename"]))
    # W13: many writers of one channel attribute
    jobs.append((binary, hooks, seeds[37], 0, None, None, 25 if ctx.quick else 200, ctx.quick, ["settings"]))
    jobs.append((binary, hooks, seeds[36], 2000 if hooks else 0, 2, None, 15 if ctx.quick else 100, ctx.quick, ["settings"]))
    # W15: pairs of operators kick / demote each other
    jobs.append((binary, hooks, seeds[33], 0, None, None, 40 if ctx.quick else 300, ctx.quick, ["mutual"]))
    jobs.append((binary, hooks, seeds[32], 2000 if hooks else 0, 2, None, 25 if ctx.quick else 150, ctx.quick, ["mutual"]))
    # W14: queries against writers
    jobs.append((binary, hooks, seeds[35], 0, None, None, 4 if ctx.quick else 25, ctx.quick, ["readers"]))
    jobs.append((binary, hooks, seeds[34], 0, 2, None, 4 if ctx.quick else 25, ctx.quick, ["readers"]))
    # W12: PRIVMSG's activity update under lock contention (3 s of idling per round)
    jobs.append((binary, hooks, seeds[39], 0, None, None, 2 if ctx.quick else 8, ctx.quick, ["idle"]))
    jobs.append((binary, hooks, seeds[38], 0, 2, None, 2 if ctx.quick else 8, ctx.quick, ["idle"]))
    # W11: queries answered in several lines while the names asked about change hands
    jobs.append((binary, hooks, seeds[46], 0, None, None, 3 if ctx.quick else 20, ctx.quick, ["queries"]))
    jobs.append((binary, hooks, seeds[47], 0, 2, None, 2 if ctx.quick else 10, ctx.quick, ["queries"]))
    # W10 needs some 12 MB per round: its own two jobs (debug build; with and without jitter)
    jobs.append((binary, hooks, seeds[40], 0, None, None, 2 if ctx.quick else 12, ctx.quick, ["backlog"]))
    jobs.append((binary, hooks, seeds[41], 2000 if hooks else 0, 2, None, 2 if ctx.quick else 12, ctx.quick, ["backlog"]))
    with multiprocessing.Pool(16) as pool:
        outs = pool.map(storm.worker, jobs)
    if not ctx.quick:
        rb, rhooks = ctx.binary(release=True)
        rjobs = [(rb, rhooks, seeds[20 + i], 2000, None, None, 150, False) for i in range(6)]
        with multiprocessing.Pool(6) as pool:
            outs += pool.map(storm.worker, rjobs)
    # a session stuck behind its own output, KILLed / closed while its nickname is claimed ("each command takes effect
    # atomically": KILL is one step, not a removal now and another one later)
    from . import common
    common.run_stuck(ctx, res)
    winners = set()
    orders = 0
    windows = 0
    for o in outs:
        res.evaluations += o["rounds"]
        res.extra["events_recorded"] = res.extra.get("events_recorded", 0) + o["events"]
        for c in o["classes"]:
            res.distinct.add(c)
        winners |= set(o["winners"])
        orders += o["orders"]
        windows += o.get("windows_passed", 0)
        if o["inconclusive"]:
            res.inconclusive += 1
            res.inconclusive_notes.append(o["inconclusive"])
        for sig, detail in o["findings"]:
            res.findings.append(Finding(sig, detail, {"engine": "storm"}))
        for s in o.get("order_samples", [])[:1]:
            res.add_sample({"reconstructed_order_or_interleaving": s})
    res.extra["distinct_winners_seen"] = len(winners)
    res.extra["distinct_orders_and_interleavings_seen"] = orders
    res.extra["lock_release_windows_passed_with_jitter"] = windows
    res.extra["plan"] = [dict(jitter_us=j, worker_threads=t or 16, server_password=bool(p), rounds=r) for j, t, p, r in plan]
    res.rule = ("storms from 4-16 connections released back to back against a 16/4/2/1-thread server with seeded 0-2 ms delays at "
                "the three lock-release windows (hook H3), also without delays, with a server password (argon2 await inside "
                "registration) and (thorough) on the release build: W1 simultaneous claims of one nick (two-phase NICK|USER, "
                "USER|NICK, one segment) and simultaneous renames: exactly one winner, losers gated (451), winner survives their "
                "departure; W2 simultaneous first joins: one founder, all members, each joiner's 353 + JOIN lines form one total "
                "order; W3 +l limit never exceeded (snapshots during the storm; every other joiner holds an invitation), exactly L members and K-L 471s; W4 pipelined "
                "numbered PRIVMSGs/PINGs: replies in command order, per (sender, receiver) strictly increasing without gap or "
                "duplicate, prefixes true; W5 random churn bursts: invariants I1-I8 at quiescence, every connection answers; W7 "
                "pipelined floods to a prompt and to a late-draining reader; W8 a connection with a 4 KiB receive buffer pipelines "
                "300-800 NAMES/LIST commands with ~230-name lists and reads nothing (the server's own counters show its handler "
                "waiting for the socket): four rounds of JOIN / PRIVMSG / TOPIC / fresh registration by others must be answered "
                "within 12 s each, then the slow one reads every reply, complete and in command order; W9 a pipelined flood to a "
                "channel while members QUIT / close / PART: those who stay get every copy; W10 four senders pile up 12 MB for a "
                "receiver that reads nothing, then it sends PING and reads: the PONG must come before 97 % of the backlog "
                "(its own commands are served while messages wait), nothing lost, per sender in order; W11 ten connections flip "
                "between two nicknames each while observers ask ISON / USERHOST about all of them with lists long enough for "
                "several reply lines: every line of one answer shows the same state, one name of each pair; W12 a sender idle for 4 s sends one "
                "PRIVMSG while four connections keep the state lock busy with OPER checks: WHOIS then counts its idle time "
                "from that message (both halves of the handler took effect); "
                "distinct = workload classes; evidence lists distinct winners and reconstructed orders")
    res.floor("rounds", res.evaluations, 400 if ctx.quick else 2000)
    res.floor("distinct_orders_and_interleavings", orders, 4)
    if hooks:
        res.floor("windows_passed", windows, 50)
    if not res.samples:
        res.add_sample({"workloads": ["claim", "rename", "firstjoin", "order", "limit", "fifo", "churn"]})
    res.assumptions = ["only interleavings the OS scheduler and the jitter hook produce are seen; nothing is enumerated",
                       "the checkers are specific linearizability consequences (unique winner, capacity, total order, per-key "
                       "FIFO), not a full linearizability search"]
    return res


def replay(ctx, path):
    print("storm findings are schedule dependent: re-run ./check C18 (same seed re-creates the same bursts and jitter seed)")
    return 2
