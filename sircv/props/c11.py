"""C11 - operator status comes only from OPER and operator commands require it."""
from ..runner import Result
from . import common

PROFILE = {'name': 'c11', 'max_clients': 6, 'hostile_masks': False, 'final_die': True, 'cfg_variants': [{}, {'reg_users': ['cy', 'rt']}, {'default_modes': 'O'}, {'default_modes': 'r', 'reg_users': ['al']}, {'default_modes': 'w'}, {'default_modes': 'iw'}, {'default_modes': 'o'}], 'weights': {'connect': 6, 'end': 2, 'quit': 1, 'join': 5, 'part': 4, 'kick': 3, 'topic': 2, 'invite': 2, 'cmode': 2, 'umode': 22, 'nick': 8, 'privmsg': 1, 'notice': 2, 'away': 1, 'oper': 16, 'kill': 5, 'wallops': 10, 'stats': 6, 'die': 4, 'squit': 4, 'names': 1, 'who': 1, 'whois': 4, 'list': 0.5, 'lusers': 0.5, 'ison': 0.3, 'userhost': 4, 'whowas': 0.3, 'chanlist': 0.5, 'cquery': 0.5}, 'nicks': ['al', 'bo', 'cy', 'root', 'adm', 'far', 'di', 'Al', 'Root']}


def run(ctx):
    res = Result("C11")
    results, cover, shapes = common.e1_check(
        ctx, res, PROFILE, n_quick=128, n_thorough=2048, steps=120, steps_thorough=240,
        relevant=lambda t: t[0] in ('oper', 'umode', 'kill', 'wallops', 'stats', 'die', 'squit'),
        nontrivial_rule='configurations with three operators (no mask / matching mask / non-matching mask) and default-mode variants (none, +O, +w, +iw, +o); OPER right/wrong in every field; MODE with every user-mode letter and sign on own and foreign nicks; nick changes to and from configured operator names followed by MODE +o/+O; KILL/WALLOPS/STATS/DIE/SQUIT from every privilege level; each episode ends with DIE or SQUIT by an operator; privilege is a derived variable of the history in the model; distinct = cover tuples of those commands')
    n = sum(c for s, c in shapes.items() if s.startswith(("oper:", "umode:", "kill:", "wallops:", "stats", "die:", "squit:")))
    dies = sum(c for s, c in shapes.items() if s in ("die:ok", "squit:ok"))
    res.extra["privilege_commands"] = n
    res.extra["server_shutdowns_observed"] = dies
    res.floor("privilege_commands", n, 1200)
    res.floor("server_shutdowns_observed", dies, 10)
    for r in results[:3]:
        if r.get("tail"):
            res.add_sample({"episode_seed": r["seed"], "last_commands": r["tail"]})
    res.assumptions = ["observation at the client sockets with the barrier protocol (DESIGN 2.3)",
                       "snapshot hook reads the state under the server's own lock",
                       "reference model of DESIGN 2.4 encodes the statement; unspecified choices are resynchronised, not judged"]
    # KILL of a session that lingers (stuck behind its own unread output), repeated: "disconnects exactly the named user"
    common.run_stuck(ctx, res, sigs=("stuck:killer-dropped", "stuck:handler-abort", "stuck:bystanders-changed", "stuck:users"))
    return res


def replay(ctx, path):
    return common.replay_e1(ctx, path)
