"""C08 - channel modes change only by members of sufficient rank, exactly as announced."""
from ..runner import Result
from . import common

PROFILE = {'name': 'c08', 'max_clients': 6, 'hostile_masks': False, 'mp_rate': 0.5, 'weights': {'connect': 6, 'end': 2, 'quit': 1, 'join': 12, 'part': 2, 'kick': 7, 'topic': 2, 'invite': 2, 'cmode': 45, 'umode': 2, 'nick': 2, 'privmsg': 3, 'notice': 2, 'away': 1, 'oper': 1, 'kill': 0.5, 'wallops': 0.5, 'stats': 0.3, 'die': 0.1, 'squit': 0.1, 'names': 3, 'who': 2, 'whois': 1, 'list': 0.5, 'lusers': 0.5, 'ison': 0.3, 'userhost': 0.3, 'whowas': 0.3, 'chanlist': 4, 'cquery': 4}, 'mode_weights': {'q': 4, 'a': 4, 'o': 6, 'h': 6, 'v': 5}}

# two of five episodes run with a channel whose ban / exception / invite-exception lists and staff come from the
# configuration (lists that no MODE ever set are edited, listed and enforced like any other)
from .. import e1 as _e1
PROFILE["cfg_variants"] = [{}, {}, {}, _e1.COMMON_VARIANTS[-2], _e1.COMMON_VARIANTS[-1]]


def run(ctx):
    res = Result("C08")
    results, cover, shapes = common.e1_check(
        ctx, res, PROFILE, n_quick=128, n_thorough=2560, steps=160, steps_thorough=320,
        relevant=lambda t: t[0] in ('cmode',),
        nontrivial_rule='every actor (outsider, plain member and all rank combinations handed out by founders) issues mode strings of 1-6 letters with both signs, list letters with and without arguments, +l extremes, +k keys, against every target rank; the MODE announcement is parsed with the multi-modestring grammar and must equal the accepted changes; refused changes must leave the snapshot unchanged; distinct = (outcome, actor rank set, letter, sign, target rank set)')
    modes = sum(n for s, n in shapes.items() if s.startswith("cmode:"))
    res.extra["mode_commands"] = modes
    res.floor("mode_commands", modes, 1500)
    res.floor("distinct_rank_letter_cases", len(res.distinct), 150)
    for r in results[:3]:
        if r.get("tail"):
            res.add_sample({"episode_seed": r["seed"], "last_commands": r["tail"]})
    res.assumptions = ["observation at the client sockets with the barrier protocol (DESIGN 2.3)",
                       "snapshot hook reads the state under the server's own lock",
                       "reference model of DESIGN 2.4 encodes the statement; unspecified choices are resynchronised, not judged"]
    # two operators demote each other / many members set one attribute at the same moment: one serial order, announced = stored
    common.run_storm_kinds(ctx, res, "c08:", ["mutual", "settings"], 20, 150, jobs=3)
    return res


def replay(ctx, path):
    return common.replay_e1(ctx, path)
