"""C14 - mask matching is exact glob semantics and always terminates with an answer."""
from .. import pure
from ..runner import Finding, Result
from . import common

PROFILE = {
    "name": "c14", "max_clients": 5, "hostile_masks": True,
    "weights": dict(connect=6, end=1, quit=0.5, join=16, part=3, kick=1, topic=0.5, invite=3, cmode=24,
                    umode=1, nick=5, privmsg=8, notice=3, away=0.5, oper=6, kill=0.2, wallops=0.5, stats=0.2,
                    die=0, squit=0, names=1, who=10, whois=10, list=0.5, lusers=0.2, ison=0.2, userhost=0.2,
                    whowas=0.2, chanlist=6, cquery=2),
    "mode_weights": dict(b=12, e=9, I=9, i=6, k=1, l=1, o=3, h=1, v=3, q=0.3, a=0.3, m=2, n=2, s=1, t=0.5),
    "nicks": ["al", "bo", "cy", "root", "adm", "far", "di"],
    # operator masks near the clients' identities (nick!~user@127.0.0.1): OPER decisions go through the matcher
    "cfg_variants": [{}, {"oper_masks": {"adm": "a*!*@*", "root": "*!~r?@*"}},
                     {"oper_masks": {"adm": "?dm!*@127.*", "root": "*o*!*@*.0.1"}},
                     {"oper_masks": {"adm": "*!*@127.0.0.?", "root": "root!~rt@127.0.0.1"}},
                     {"oper_masks": {"adm": "*adm*", "root": "r??t*", "far": "*!*@*.0.2"}},
                     {"oper_masks": {"adm": "ad?", "root": "*!~rt@127.0.0.1*"}}],
}


def pure_part(ctx, res):
    b = pure.build()
    size = 5 if ctx.quick else 6
    nrand = 150000 if ctx.quick else 3000000
    out = {}
    for mode, sz, n in (("glob", size, nrand), ("mask", 6 if ctx.quick else 7, 0)):
        r = pure.run(b, mode, ctx.seed, sz, n)
        out[mode] = r
        res.evaluations += r["evaluations"]
        for k in r["classes"]:
            res.distinct.add(mode + ":" + k)
        for m in r["mismatches"]:
            res.findings.append(Finding(m["signature"], "%s: got %s, reference says %s"
                                        % (m["input"], m["got"], m["expected"]),
                                        {"engine": "pure", "mode": mode, "input": m["input"]}))
        for s in r["samples"][:3]:
            res.add_sample({"mode": mode, "case": s})
    res.extra["pure_glob_pairs"] = out["glob"]["evaluations"]
    res.extra["pure_glob_exhaustive_pairs_ascii"] = out["glob"].get("exhaustive_pairs_ascii")
    res.extra["pure_glob_exhaustive_pairs_utf8"] = out["glob"].get("exhaustive_pairs_utf8")
    res.extra["pure_mask_completions"] = out["mask"]["evaluations"]
    res.exhaustive = False
    res.extra["exhaustive_subspace"] = ("patterns over {a,b,*,?} and texts over {a,b} up to length %d, the same over "
                                        "{é,a,*,?}/{é,a} up to 5, masks over {n,!,@,*,é}: enumerated completely; "
                                        "the random long pairs are sampled" % size)
    if not ctx.quick:
        # Miri: the same harness under the interpreter on the small exhaustive set
        r, note = pure.run_miri("glob", ctx.seed, 3, 300)
        res.extra["miri_glob"] = note if r is None else {"evaluations": r["evaluations"],
                                                          "mismatch_count": r["mismatch_count"]}
        if r is not None:
            for m in r["mismatches"]:
                res.findings.append(Finding("miri:" + m["signature"], m["input"], {"engine": "miri"}))
        elif note.startswith("miri UB"):
            res.findings.append(Finding("miri:ub:glob", note, {"engine": "miri"}))
        else:
            res.inconclusive += 1
            res.inconclusive_notes.append(note[:300])


def run(ctx):
    res = Result("C14")
    pure_part(ctx, res)
    results, cover, shapes = common.e1_check(
        ctx, res, PROFILE, n_quick=96, n_thorough=1920, steps=150, steps_thorough=300,
        relevant=lambda t: t[0] in ("join", "speak", "oper", "who", "whois", "chanlist"),
        nontrivial_rule="(pure) match_wildcard and normalize_sourcemask of the live sources against a textbook DP glob "
                        "and the completion rule, every call under catch_unwind: exhaustive small alphabets + random long "
                        "pairs biased to literal runs longer than the text, leading/trailing/consecutive wildcards, "
                        "multi-byte characters, empty mask/text; distinct = (pattern shape class, result). "
                        "(wire) +b/+e/+I/OPER-mask/WHO/WHOIS decisions of the running server compared with the reference "
                        "glob of the model on mask-heavy histories, stored and announced list masks must be in completed form")
    res.floor("pure_glob_pairs", res.extra["pure_glob_pairs"], 100000)
    masks = sum(n for s, n in shapes.items() if s in ("who", "whois", "chanlist") or s.startswith("oper:"))
    res.extra["wire_mask_queries"] = masks
    res.floor("wire_mask_queries", masks, 300)
    res.assumptions = ["reference glob = textbook dynamic programme over Unicode scalar values",
                       "harness compiles /repo/src/utils.rs and command.rs via #[path] (live files, no copy)"]
    return res


def replay(ctx, path):
    import json
    with open(path) as f:
        d = json.load(f)
    if d.get("replay", {}).get("engine") == "pure":
        b = pure.build()
        import subprocess
        inp = d["replay"]["input"]
        if " ~ " in inp:
            p, s = inp.split(" ~ ", 1)
            out = subprocess.run([b, "eval"], input="G %s\t%s\n" % (p, s), text=True, capture_output=True).stdout
            print("match_wildcard(%r, %r) -> %s" % (p, s, out.strip()))
        print("VIOLATION property=C14 replay=%s" % path if d["signature"] else "")
        return 1
    return common.replay_e1(ctx, path)
