"""C16 - channels are born with a founder, die with the last member, or come from config."""
from ..runner import Result
from . import common

PROFILE = {'name': 'c16', 'max_clients': 5, 'hostile_masks': False, 'cfg_variants': 'c16', 'weights': {'connect': 6, 'end': 5, 'quit': 4, 'join': 24, 'part': 14, 'kick': 6, 'topic': 5, 'invite': 2, 'cmode': 10, 'umode': 2, 'nick': 3, 'privmsg': 4, 'notice': 2, 'away': 1, 'oper': 2, 'kill': 2, 'wallops': 0.5, 'stats': 0.3, 'die': 0.1, 'squit': 0.1, 'names': 3, 'who': 1, 'whois': 1, 'list': 4, 'lusers': 2, 'ison': 0.3, 'userhost': 0.3, 'whowas': 0.3, 'chanlist': 2, 'cquery': 4}}


def run(ctx):
    res = Result("C16")
    results, cover, shapes = common.e1_check(
        ctx, res, PROFILE, n_quick=128, n_thorough=2560, steps=150, steps_thorough=300,
        relevant=lambda t: t[0] in ('create', 'part-last', 'join', 'names'),
        nontrivial_rule='create-decorate-empty-recreate cycles with the emptying exit chosen among PART, KICK, QUIT, close/reset, KILL in any order; random configurations of 0-3 predefined channels with random subsets of topic, flags, key, limit, lists and rank lists; model includes preconfigured channels and their default ranks; snapshot equality after every step (I5: no empty non-preconfigured channel, every preconfigured one present); distinct = cover tuples + emptied/created shapes')
    created = sum(c for s, c in shapes.items() if "create" in s)
    emptied = cover.get("('part-last',)", 0) + sum(c for s, c in shapes.items() if "emptied" in s)
    res.extra["channels_created"] = created
    res.extra["channels_emptied_by_part_or_kick"] = emptied
    res.extra["config_variants"] = len({r.get("variant_id") for r in results})
    res.floor("channels_created", created, 300)
    res.floor("channels_emptied", emptied, 60)
    for r in results[:3]:
        if r.get("tail"):
            res.add_sample({"episode_seed": r["seed"], "last_commands": r["tail"]})
    res.assumptions = ["observation at the client sockets with the barrier protocol (DESIGN 2.3)",
                       "snapshot hook reads the state under the server's own lock",
                       "reference model of DESIGN 2.4 encodes the statement; unspecified choices are resynchronised, not judged"]
    # "creates the channel and makes the joiner its founder": also when several ask for the same new name at once
    common.run_storm_kinds(ctx, res, "c16:", ["firstjoin", "order", "firstjoin"], 25, 150, jobs=6, jitter=2000)
    # "as soon as its last member leaves by any means": ping timeout, and the end of a session stuck behind its own output
    common.run_idleout(ctx, res, sigs=("idle:ghost-channel", "idle:configured-channel-gone", "idle:state:channels", "idle:rank-inherited"))
    common.run_stuck(ctx, res, sigs=("stuck:ghost-channel", "stuck:contended-ghost-channel", "stuck:claimant-inherited-rank"))
    return res


def replay(ctx, path):
    return common.replay_e1(ctx, path)
