"""E1: sequential differential monitor.  One server, several client sockets, a monitor client M,
the barrier protocol, and the one-step conformance check against the reference model."""
import collections
import time

from .sut import diagnose as sut_diagnose
from . import invariants, model as M, wire
from .model import ANY, parse_modeline

MON = "Mon"
Violation = collections.namedtuple("Violation", "rule props signature detail step")


class Inconclusive(Exception):
    pass


COMPONENT_PROPS = {
    "users": {"C02", "C06", "C19"}, "users/modes": {"C11", "C19", "C12", "C15"}, "users/away": {"C10", "C19", "C15"},
    "users/channels": {"C04", "C06", "C16", "C07"}, "users/invited": {"C09", "C07", "C15"},
    "users/user": {"C01", "C02"}, "users/host": {"C01"}, "users/realname": {"C02"},
    "chans": {"C16", "C04", "C19"}, "chans/members": {"C04", "C08", "C01", "C09", "C15"}, "chans/topic": {"C09", "C16"},
    "chans/flags": {"C08", "C10", "C12", "C07", "C09", "C16"}, "chans/key": {"C08", "C07", "C16"},
    "chans/limit": {"C08", "C07", "C16"}, "chans/ban": {"C08", "C07", "C10", "C14", "C16"},
    "chans/exc": {"C08", "C07", "C10", "C14", "C16"}, "chans/invex": {"C08", "C07", "C14", "C16"},
    "chans/preconf": {"C16"}, "whowas": {"C06", "C15"}, "max_users": {"C19"},
}


def render(cmd):
    """structured command -> wire line (canonical serialisation)"""
    v = cmd["verb"]
    if "line" in cmd:
        return cmd["line"]
    if v == "REUSER":
        return "USER %s 0 * :%s" % (cmd["user"], cmd["real"]) if cmd["what"] == "user" else "PASS " + cmd["user"]
    if v == "CAP":
        return "CAP " + cmd["sub"] + (" :" + " ".join(cmd["caps"]) if cmd.get("caps") else "")
    if v == "JOIN":
        s = "JOIN " + ",".join(cmd["chans"])
        if cmd.get("keys") is not None:
            s += " " + ",".join(cmd["keys"])
        return s
    if v == "PART":
        s = "PART " + ",".join(cmd["chans"])
        if cmd.get("reason") is not None:
            s += " :" + cmd["reason"]
        return s
    if v == "KICK":
        s = "KICK %s %s" % (cmd["chan"], ",".join(cmd["users"]))
        if cmd.get("comment") is not None:
            s += " :" + cmd["comment"]
        return s
    if v == "TOPIC":
        return "TOPIC " + cmd["chan"] + ("" if cmd.get("text") is None else " :" + cmd["text"])
    if v == "INVITE":
        return "INVITE %s %s" % (cmd["nick"], cmd["chan"])
    if v == "MODE":
        s = "MODE " + cmd["target"]
        for ms, args in cmd["modes"]:
            s += " " + ms
            for a in args:
                s += " " + a
        return s
    if v == "CHANLIST":
        return "MODE %s +%s" % (cmd["chan"], cmd["letter"])
    if v == "NICK":
        return "NICK " + cmd["nick"]
    if v in ("PRIVMSG", "NOTICE"):
        return "%s %s :%s" % (v, ",".join(cmd["targets"]), cmd["text"])
    if v == "AWAY":
        return "AWAY" if cmd.get("text") is None else "AWAY :" + cmd["text"]
    if v == "OPER":
        return "OPER %s %s" % (cmd["name"], cmd["password"])
    if v == "KILL":
        return "KILL %s :%s" % (cmd["nick"], cmd.get("comment", "bye"))
    if v == "WALLOPS":
        return "WALLOPS :" + cmd["text"]
    if v == "STATS":
        return "STATS " + cmd.get("query", "u")
    if v == "DIE":
        return "DIE"
    if v == "SQUIT":
        return "SQUIT %s :%s" % (cmd["server"], cmd.get("comment", "bye"))
    if v == "QUIT":
        return "QUIT"
    if v == "NAMES":
        return "NAMES" + (" " + ",".join(cmd["chans"]) if cmd.get("chans") else "")
    if v == "WHO":
        return "WHO " + cmd["mask"]
    if v == "WHOIS":
        return "WHOIS " + ",".join(cmd["masks"])
    if v == "LIST":
        return "LIST" + (" " + ",".join(cmd["chans"]) if cmd.get("chans") else "")
    if v == "LUSERS":
        return "LUSERS"
    if v in ("ISON", "USERHOST"):
        return v + " " + " ".join(cmd["nicks"])
    if v == "WHOWAS":
        return "WHOWAS " + cmd["nick"] + (" %d" % cmd["count"] if cmd.get("count") is not None else "")
    raise ValueError(v)


class World:
    def __init__(self, server, cfg, watchdog=10.0, tls=False):
        self.srv = server
        self.cfg = cfg
        self.model = M.Model(cfg)
        self.clients = {}  # cid -> wire.Client
        self.tls = tls
        self.watchdog = watchdog
        self.step_no = 0
        self.violations = []
        self.history = []  # (cid, line) in order
        self.cover = collections.Counter()
        self.shapes = collections.Counter()
        self.deliveries_checked = 0
        self.snapshots = 0
        self.mon = None
        self.next_cid = 1
        self.disconnected = set()  # nicks that went away without announcement
        self.dead = False
        self.last_snap = None
        self.serial_noise = None  # a random.Random: send grammar-equivalent serialisations
        self.forge = None  # a random.Random: some commands carry a ':prefix' naming another user (to be ignored)
        self.lost_barrier = None
        self.stalled = None
        self.derived = {}  # cid -> {channel: set(nicks)}: roster reconstructed from what the client was told
        self.ever_gone = set()  # nicks whose session ended (unannounced departures are legitimate)
        self.derived_checks = 0
        self.actions = []  # structured actions in order (for replaying prefixes)
        self.noise_kinds = collections.Counter()
        self.excess = []  # parameters appended beyond the verb's maximum in the line just sent

    # ------------------------------------------------------------ plumbing
    def log(self, cid, line):
        self.history.append((cid, line))

    def violate(self, rule, props, shape, detail):
        v = Violation(rule, tuple(sorted(props)), "%s|%s" % (rule, shape), detail, self.step_no)
        self.violations.append(v)
        return v

    def start(self, password=None):
        self.mon = wire.Client(self.srv.port, tls=self.tls, timeout=self.watchdog, name="M")
        self.model.new_conn(0)
        self.clients[0] = self.mon
        if password is not None:
            self.mon.send("PASS " + password)
        self.mon.send("NICK " + MON)
        self.mon.send("USER mon 0 * :monitor")
        self.log(0, "NICK %s / USER mon" % MON)
        try:
            self.mon.read_until(lambda m: m.verb == "221")
        except (wire.Closed, wire.Timeout) as ex:
            raise Inconclusive("monitor client could not register: %r" % (ex,))
        self.model.register(0, MON, "mon", "monitor")
        snap = self.snap()
        if snap is not None:
            # channels declared in the configuration exist from start-up with their configured attributes
            want = self.model.canon()["chans"]
            got = invariants.canon(snap)["chans"]
            for path, a, b in invariants.diff(want, got)[:6]:
                self.violate("config-channel", {"C16", "C20"}, "startup",
                             "predefined channel state at start-up %s: configured %r, server has %r" % (path, a, b))
            for cn, c in self.model.chans.items():
                sd = snap["channels"].get(cn, {}).get("default_modes", {})
                for key, r in (("founders", "q"), ("protecteds", "a"), ("operators", "o"),
                               ("half_operators", "h"), ("voices", "v")):
                    if sorted(c.defaults[r]) != sorted(sd.get(key, [])):
                        self.violate("config-channel-ranks", {"C16", "C20"}, "startup",
                                     "predefined channel %s: configured %s %s, server has %s"
                                     % (cn, key, sorted(c.defaults[r]), sd.get(key)))
            self.model.load_snapshot(snap)

    def close(self):
        for c in self.clients.values():
            c.close()
        self.clients = {}

    def fresh_connection_served(self):
        try:
            c = wire.Client(self.srv.port, tls=self.tls, timeout=3.0)
            c.send("PING fresh")
            c.read_until(lambda m: m.verb in ("451", "PONG"), 3.0)
            c.close()
            return True
        except (wire.Closed, wire.Timeout, OSError):
            return False

    def owned_nicks(self):
        return {n for n, cid in self.model.owner.items() if cid in self.clients
                and not self.clients[cid].eof}

    def snap(self):
        s = self.srv.snap()
        if s is not None:
            self.snapshots += 1
            self.last_snap = s
        return s

    def sync_model(self):
        s = self.snap()
        if s is not None:
            self.model.load_snapshot(s)
        return s

    # ------------------------------------------------------------ barrier
    def barrier(self, nicks):
        """M sends one PRIVMSG to all `nicks`; returns {cid: [lines before the marker]}.
        A client that is closed by the server meanwhile is reported with kind in self._closed."""
        self.step_no += 1
        self.lost_barrier = None
        self.stalled = None
        tag = "SYNC%d" % self.step_no
        targets = [n for n in nicks if n != MON]
        inbox = {}
        closed = {}
        # M addresses itself too: its own copy travels through its own FIFO queue, so everything
        # queued for M before is read before the marker (a PING would not guarantee that)
        # (several lines when the nicknames are long: a line over the server's length limit would end the monitor)
        chunks, cur = [], []
        for n in targets + [MON]:
            if cur and len(",".join(cur + [n]).encode("utf-8", "replace")) > 1400:
                chunks.append(cur)
                cur = []
            cur.append(n)
        chunks.append(cur)
        for ch in chunks:
            self.mon.send("PRIVMSG %s :%s" % (",".join(ch), tag))
        try:
            lines = self.mon.read_until(lambda m: m.verb == "PRIVMSG" and m.params[-1:] == [tag]
                                        and (m.source or "").startswith(MON + "!"), self.watchdog)
            inbox[0] = lines[:-1]
        except wire.Closed as ex:
            closed[0] = ex.kind
            inbox[0] = ex.lines
            raise Inconclusive("monitor connection closed by the server")
        except wire.Timeout:
            raise Inconclusive("monitor barrier timed out")
        seen_cids = set()
        for n in targets:
            cid = self.model.owner.get(n)
            if cid is None or cid not in self.clients or cid in seen_cids:
                continue
            seen_cids.add(cid)  # without a snapshot a client may be addressed under its old and its new nick
            c = self.clients[cid]
            try:
                lines = c.read_until(lambda m: m.verb == "PRIVMSG" and m.params[-1:] == [tag]
                                     and (m.source or "").startswith(MON + "!"), self.watchdog)
                inbox[cid] = inbox.get(cid, []) + lines[:-1]
            except wire.Closed as ex:
                closed[cid] = ex.kind
                inbox[cid] = inbox.get(cid, []) + ex.lines
            except wire.Timeout as ex:
                # the marker did not arrive within the watchdog period: is the connection served at all?
                try:
                    c.ping("lost%d" % self.step_no, 5.0)
                    alive = True
                except (wire.Closed, wire.Timeout):
                    alive = False
                if alive:
                    # the connection answers, but a PRIVMSG addressed to its registered nick never came
                    self.lost_barrier = (cid, n, tag)
                    inbox[cid] = inbox.get(cid, []) + getattr(ex, "lines", [])
                    continue
                if self.fresh_connection_served():
                    self.stalled = (cid, n)
                    inbox[cid] = inbox.get(cid, []) + getattr(ex, "lines", [])
                    continue
                raise Inconclusive("client %s did not see barrier %s (got %d lines)"
                                   % (cid, tag, len(getattr(ex, "lines", []))))
        return inbox, closed

    # ------------------------------------------------------------ actions
    def connect(self, nick, user, realname="r n", password=None, multi_prefix=False):
        """open a connection and register it under a free nick (macro step)"""
        cid = self.next_cid
        self.next_cid += 1
        self.actions.append(["connect", dict(nick=nick, user=user, realname=realname, password=password,
                                             multi_prefix=multi_prefix)])
        try:
            c = wire.Client(self.srv.port, tls=self.tls, timeout=self.watchdog, name=str(cid))
        except OSError as ex:
            raise Inconclusive("connect failed: %r" % (ex,))
        self.clients[cid] = c
        self.model.new_conn(cid)
        lines = []
        if password is not None:
            c.send("PASS " + password)
        if multi_prefix:
            c.send("CAP REQ :multi-prefix")
        # the order of the registration commands rotates with the connection number (stable under replay):
        # NICK,USER / USER,NICK / a refused NICK (taken by the monitor), USER, then the real NICK
        order = cid % 3
        if order == 0:
            c.send("NICK " + nick)
            c.send("USER %s 0 * :%s" % (user, realname))
        elif order == 1:
            c.send("USER %s 0 * :%s" % (user, realname))
            c.send("NICK " + nick)
        else:
            c.send("NICK " + MON)
            try:
                c.read_until(lambda m: m.verb == "433", self.watchdog)
            except (wire.Closed, wire.Timeout):
                raise Inconclusive("no 433 for a nickname in use during registration")
            c.send("USER %s 0 * :%s" % (user, realname))
            c.send("NICK " + nick)
        if multi_prefix:
            c.send("CAP END")
        self.log(cid, "REGISTER %s %s mp=%s" % (nick, user, multi_prefix))
        pre = self.model.clone()
        exp = self.model.register(cid, nick, user, realname, multi_prefix)
        try:
            lines = c.read_until(lambda m: m.verb in ("221", "433", "464"), self.watchdog)
        except wire.Closed as ex:
            self.violate("register-closed", exp.props | {"C05"}, exp.shape,
                         "connection closed (%s) during registration of %s: %s"
                         % (ex.kind, nick, [m.raw for m in ex.lines][-3:]))
            self.model = pre
            self.model.conn.pop(cid, None)
            del self.clients[cid]
            return None
        except wire.Timeout:
            raise Inconclusive("registration of %s timed out" % nick)
        return self.finish_step(cid, exp, lines, pre, actor_closed=None)

    # ---- unfinished registrations: a connection that only claims a nickname, and may complete later
    def _marker(self, c, tag):
        c.send(tag)
        return c.read_until(lambda m: m.verb == "421" and tag in m.params, self.watchdog)[:-1]

    def half_open(self, nick, password=None):
        cid = self.next_cid
        self.next_cid += 1
        self.actions.append(["half_open", nick, password])
        try:
            c = wire.Client(self.srv.port, tls=self.tls, timeout=self.watchdog, name=str(cid))
        except OSError as ex:
            raise Inconclusive("connect failed: %r" % (ex,))
        self.clients[cid] = c
        pre = self.model.clone()
        self.model.new_conn(cid)
        self.model.conn[cid]["claim"] = None
        self.log(cid, "HALF-OPEN NICK %s" % nick)
        exp = M.Exp("HALF", ("C02", "C03", "C19", "C06"))
        exp.forbid |= {"001"}
        if nick in self.model.users:
            exp.need("433", p1=nick)
            exp.shape = "half:taken"
        else:
            self.model.conn[cid]["claim"] = nick
            exp.shape = "half:claimed"
        exp.cover.append(("half", exp.shape))
        if password is not None:
            c.send("PASS " + password)
        c.send("NICK " + nick)
        try:
            lines = self._marker(c, "VSYNC%d" % (self.step_no + 1))
        except wire.Closed as ex:
            return self.finish_step(cid, exp, ex.lines, pre, ex.kind)
        except wire.Timeout:
            raise Inconclusive("half-open connection got no answer")
        return self.finish_step(cid, exp, lines, pre, None)

    def half_complete(self, cid, user):
        c = self.clients[cid]
        self.actions.append(["half_complete", cid, user])
        claim = self.model.conn[cid].get("claim")
        pre = self.model.clone()
        self.log(cid, "HALF-COMPLETE USER %s (claim %s)" % (user, claim))
        if claim is None:
            exp = M.Exp("HALF", ("C02", "C03", "C19"))
            exp.forbid |= {"001"}
            exp.shape = "half:user-without-nick"
        elif self._mask_refuses(claim, user):
            # an account whose mask does not match this source: refused (an ERROR line), the connection stays
            # unregistered and keeps no hold on the nickname's later owner
            exp = M.Exp("HALF", ("C02", "C03", "C19", "C06"))
            exp.forbid |= {"001"}
            exp.unspec_replies = True
            exp.shape = "half:mask-refused"
        elif claim in self.model.users:
            exp = M.Exp("HALF", ("C02", "C03", "C19", "C06"))
            exp.need("433", p1=claim)
            exp.forbid |= {"001"}
            exp.shape = "half:late-433"
        else:
            exp = self.model.register(cid, claim, user, "half")
            exp.shape = "half:completed"
        exp.cover.append(("half", exp.shape))
        c.send("USER %s 0 * :half" % user)
        try:
            lines = self._marker(c, "VSYNC%d" % (self.step_no + 1))
        except wire.Closed as ex:
            return self.finish_step(cid, exp, ex.lines, pre, ex.kind)
        except wire.Timeout:
            raise Inconclusive("half-open connection got no answer")
        return self.finish_step(cid, exp, lines, pre, None)

    def _mask_refuses(self, nick, user):
        from . import glob
        cu = self.model.cfg.users.get(user)
        return bool(cu and cu[1] and not glob.match(cu[1], "%s!~%s@%s" % (nick, user, self.model.host)))

    def half_probe(self, cid, line):
        """a command by a connection that was never welcomed (it may have claimed a nickname, it may have been
        refused with 433 when it tried to complete): 451 and nothing else, whoever now owns the claimed nickname"""
        c = self.clients[cid]
        self.actions.append(["half_probe", cid, line])
        pre = self.model.clone()
        self.log(cid, "HALF-PROBE " + line)
        verb = line.split()[0].upper()
        props = {"C03", "C02"}
        if verb in ("KILL", "DIE", "SQUIT", "WALLOPS", "STATS", "OPER", "MODE"):
            props.add("C11")
        exp = M.Exp("HALF", tuple(sorted(props)))
        exp.need("451")
        exp.only = {"451"}
        exp.shape = "half:probe:" + verb
        exp.cover.append(("half", "probe", verb, self.model.conn[cid].get("claim") in self.model.users))
        c.send(line)
        try:
            lines = self._marker(c, "VSYNC%d" % (self.step_no + 1))
        except wire.Closed as ex:
            return self.finish_step(cid, exp, ex.lines, pre, ex.kind)
        except wire.Timeout:
            raise Inconclusive("half-open connection got no answer")
        return self.finish_step(cid, exp, lines, pre, None)

    def act(self, cid, cmd):
        """one command by a registered client, barrier, check"""
        c = self.clients[cid]
        self.actions.append(["act", cid, cmd])
        line = render(cmd)
        self.excess = []
        if self.serial_noise is not None:
            line = self.vary(line, self.model.conn[cid]["nick"])
        self.log(cid, line)
        pre = self.model.clone()
        exp = self.model.step(cid, cmd)
        if self.serial_noise is not None:
            # the line went out in another serialisation of the same message (and possibly with excess parameters):
            # whatever differs from the model now also concerns the parsing property
            exp.props = set(exp.props) | {"C13"}
        if self.forge is not None and not line.lstrip().startswith(":") and self.forge.random() < 0.2:
            # a client may put any ':source' in front of its command: it still acts as itself, and is announced as itself
            others = [u.source for n, u in pre.users.items() if n != pre.conn[cid]["nick"]]
            if others:
                line = ":%s %s" % (self.forge.choice(others), line.lstrip())
                exp.props = set(exp.props) | {"C02", "C13"}
                self.log(cid, "(sent with a forged prefix) " + line)
        c.send(line)
        actor_closed = None
        lines = []
        if cid in exp.closes:
            lines, kind = c.read_to_eof(self.watchdog)
            actor_closed = kind
            if kind is None:
                self.violate("not-closed", exp.props, exp.shape,
                             "connection %s still open after %s" % (cid, line))
                # keep going: treat as open
        else:
            try:
                lines = c.ping("s%d" % (self.step_no + 1), self.watchdog)
            except wire.Closed as ex:
                actor_closed = ex.kind
                lines = ex.lines
            except wire.Timeout as ex:
                got = getattr(ex, "lines", [])
                if any(m.verb == "451" for m in got):
                    # the server answered - but treats a registered client as unregistered
                    # a registered client treated as unregistered: nothing it sends is delivered any more, its views and
                    # its later clean-up are gone too - every property about registered clients' commands is concerned
                    self.violate("registered-client-gated", exp.props | {"C01", "C02", "C03", "C04", "C05", "C06", "C15", "C16", "C19"}, exp.shape,
                                 "after %r the registered client %s is answered 451: %s"
                                 % (line, self.model.conn.get(cid, {}).get("nick"), [m.raw for m in got][:3]))
                    self.dead = True
                    return self.violations[-1:]
                if self.fresh_connection_served():
                    # the process serves a new connection at once while this one got no answer for the whole
                    # watchdog period: that connection is stalled, not the machine
                    self.violate("connection-stalled", exp.props | {"C05", "C18"}, exp.shape,
                                 "no answer for %.0f s after %r on connection %s although a fresh connection is "
                                 "served immediately (%d lines received)" % (self.watchdog, line, cid, len(got)))
                    self.dead = True
                    return self.violations[-1:]
                raise Inconclusive("no PONG after %r (%d lines)" % (line, len(got)))
        return self.finish_step(cid, exp, lines, pre, actor_closed)

    def act_die(self, cid, cmd):
        """DIE / SQUIT by an operator: every session is told and closed, the process stops"""
        line = render(cmd)
        self.log(cid, line)
        exp = self.model.step(cid, cmd)
        self.step_no += 1
        self.shapes[exp.shape] += 1
        for cv in exp.cover:
            self.cover[cv] += 1
        killer = self.model.conn[cid]["nick"]
        self.clients[cid].send(line)
        for k, c in list(self.clients.items()):
            lines, kind = c.read_to_eof(5.0)
            errs = [m for m in lines if m.verb.startswith("ERROR")]
            if kind is None:
                self.violate("die-not-closed", exp.props, exp.shape,
                             "connection %s still open 5 s after %s" % (k, line))
            elif errs and killer in errs[-1].raw:
                # being told is not required by the statement (the process may stop first)
                self.cover[("die", "told")] += 1
        deadline = time.monotonic() + 5.0
        while self.srv.alive() and time.monotonic() < deadline:
            time.sleep(0.01)
        if self.srv.alive():
            self.violate("die-process-alive", exp.props, exp.shape, "server process still running 5 s after " + line)
        self.dead = True
        return self.violations

    def vary(self, line, nick):
        """a grammar-equivalent serialisation of the same message (C13 metamorphic twin)"""
        from . import grammar
        r = self.serial_noise
        try:
            src, verb, params = grammar.parse(line)
        except grammar.ParseError:
            return line
        kinds = []
        if r.random() < 0.4:
            verb = "".join(ch.lower() if r.random() < 0.5 else ch.upper() for ch in verb)
            kinds.append("case")
        if src is None and r.random() < 0.25:
            src = r.choice([nick or "x", "%s!~u@h" % (nick or "x"), "irc.example.org"])
            kinds.append("source")
        maxar = {"PART": 2, "TOPIC": 2, "KICK": 3, "NICK": 1, "PRIVMSG": 2, "NOTICE": 2, "INVITE": 2, "AWAY": 1,
                 "WALLOPS": 1, "KILL": 2, "OPER": 2, "JOIN": 2}.get(verb.upper())
        if maxar is not None and len(params) == maxar and r.random() < 0.2 and params[-1] != "" \
                and params[-1][0] != ":" and not any(ch.isspace() for ch in params[-1]):
            # "every verb with every arity up to beyond its maximum": parameters beyond the last one the verb takes
            # change nothing (possible only when the last real parameter can travel as a middle parameter)
            self.excess = r.choice([["excess"], ["one", "two words"], ["#x"], ["al"], ["9"]])
            params = list(params) + self.excess
            kinds.append("excess")
        blanks = r.choice([1, 1, 2, 3])
        lead = r.choice([0, 0, 1, 2])
        tail = r.choice([0, 0, 1, 2])
        force = r.random() < 0.4
        if blanks > 1:
            kinds.append("blanks")
        if lead:
            kinds.append("lead")
        if force:
            kinds.append("colon-on-last")
        try:
            out = grammar.serialize(src, verb, params, force_trailing=force, blanks=blanks, lead=lead,
                                    tail=tail)
        except ValueError:
            return line
        if tail and out.endswith(" "):
            kinds.append("tail")
        for k in kinds:
            self.noise_kinds[k] += 1
        return out

    def _fragment(self, cid, nick):
        """an unterminated last line that would be a complete, valid command with an effect on others if it were
        executed: the socket closes in the middle of a line - the line never happened"""
        u = self.model.users.get(nick) if nick else None
        chans = sorted(u.channels) if u else []
        others = sorted(n for n in self.model.users if n != nick and n != MON)
        cands = ["PRIVMSG %s :a fragment, never to be delivered" % MON, "NICK frag%d" % self.step_no, "JOIN #frag%d" % self.step_no]
        if chans:
            ch = chans[self.step_no % len(chans)]
            cands += ["TOPIC %s :topic from a fragment" % ch, "MODE %s +m" % ch, "PRIVMSG %s :fragment to the channel" % ch,
                      "PART %s" % ch]
            if others:
                o = others[self.step_no % len(others)]
                cands += ["KICK %s %s" % (ch, o), "MODE %s -o %s" % (ch, o), "INVITE %s %s" % (o, ch)]
        if others:
            cands.append("PRIVMSG %s :fragment for you" % others[self.step_no % len(others)])
        if u is not None and u.is_oper and others:
            cands.append("KILL %s :fragment" % others[0])
        return cands[self.step_no % len(cands)]

    def end_client(self, cid, how="close"):
        """client side ending; waits until the server has forgotten the user"""
        c = self.clients[cid]
        self.actions.append(["end", cid, how])
        nick = self.model.conn[cid]["nick"]
        self.log(cid, "<%s>" % how)
        pre = self.model.clone()
        exp = self.model.drop_conn(cid)
        exp.shape = "end:" + how
        if how == "close":
            c.close()
        elif how == "rst":
            c.close_rst()
        elif how == "halfclose":
            c.half_close()
        elif how == "midline":
            c.send_raw(self._fragment(cid, nick).encode("utf-8"))
            c.close()
        elif how == "quit":
            # (unfinished registrations only; a registered client's QUIT is an ordinary command of the model)
            c.send("QUIT :leaving before ever arriving")
        elif how == "badutf8":
            c.send_raw(b"PRIVMSG x :\xff\xfe\xfd\r\n")
        elif how == "toolong":
            c.send_raw(b"PRIVMSG x :" + b"a" * 2100 + b"\r\n")
        elif how == "unread-rst":
            # output queued for the victim which it never reads, then a reset
            if nick is not None:
                for i in range(150):
                    self.mon.send("PRIVMSG %s :%s" % (nick, "u%03d" % i + "x" * 380))
                try:
                    self.mon.ping("flood", self.watchdog)
                except (wire.Closed, wire.Timeout):
                    raise Inconclusive("monitor lost during flood")
            c.close_rst()
        else:
            raise ValueError(how)
        if how in ("halfclose", "badutf8", "toolong", "quit"):
            # the server ends the connection: EOF is the barrier
            _, kind = c.read_to_eof(5.0)
            if kind is None:
                if how == "toolong":
                    # an over-long line need not end the session (417 and go on is also fine)
                    self.model = pre
                    self.log(cid, "<still open>")
                    return self.settle(cid, M.Exp("END", ("C06",)), pre)
                self.violate("not-closed", exp.props, exp.shape, "still open 5 s after " + how)
            c.close()
        del self.clients[cid]
        self.disconnected.add(nick)
        # poll until the nick is gone (bounded)
        if nick is not None:
            self.wait_gone([nick])
        return self.finish_step(None, exp, [], pre, None, ended=cid)

    def end_many(self, cids, hows):
        """several connections ending at once"""
        self.actions.append(["end_many", list(cids), list(hows)])
        pre = self.model.clone()
        nicks = []
        self.log(None, "<several at once: %s>" % list(zip(cids, hows)))
        for cid, how in zip(cids, hows):
            nicks.append(self.model.conn[cid]["nick"])
        exp = None
        for cid in cids:
            exp = self.model.drop_conn(cid)
        exp.shape = "end:several"
        for cid, how in zip(cids, hows):
            c = self.clients[cid]
            if how == "rst":
                c.close_rst()
            elif how == "midline":
                c.send_raw(self._fragment(cid, self.model.conn.get(cid, {}).get("nick")).encode("utf-8"))
                c.close()
            else:
                c.close()
        for cid, nick in zip(cids, nicks):
            del self.clients[cid]
            self.disconnected.add(nick)
        self.wait_gone([n for n in nicks if n is not None])
        return self.finish_step(None, exp, [], pre, None)

    def wait_gone(self, nicks, bound=5.0):
        """after a client side ending: wait (bounded) until the server has forgotten the nicks; by snapshot if
        the hook is there, else by ISON from the monitor client"""
        deadline = time.monotonic() + bound
        while time.monotonic() < deadline:
            if self.srv.hooks:
                s = self.srv.snap()
                if not any(n in s["users"] for n in nicks):
                    return True
            else:
                self.mon.send("ISON " + " ".join(nicks))
                try:
                    lines = self.mon.read_until(lambda m: m.verb == "303", 5.0)
                except (wire.Closed, wire.Timeout):
                    return False
                if not lines[-1].params[-1].split():
                    return True
            time.sleep(0.003)
        return False

    def settle(self, cid, exp, pre):
        return self.finish_step(None, exp, [], pre, None)

    # ------------------------------------------------------------ the conformance check
    def finish_step(self, cid, exp, actor_lines, pre, actor_closed, ended=None):
        """barrier for everybody, then compare observation with expectation"""
        V0 = len(self.violations)
        snap = self.snap()
        if snap is not None and snap.get("handler_aborts"):
            # a session handler unwound: report it with the panic as signature and stop here,
            # the barrier itself is not reliable any more (a ghost user breaks fan-outs)
            time.sleep(0.05)
            panics, aborts = self.srv.panics()
            loc, msg = (aborts[-1][1] if aborts and aborts[-1][1] else ("?", "?"))
            self.shapes[exp.shape] += 1
            # (C06: the session of the connection whose handler unwound has ended - its socket is closed - and nothing
            # of it was cleaned up)
            v = Violation("handler-abort", tuple(sorted(set(exp.props) | {"C05", "C06"})),
                          "handler-abort|%s|%s|%s" % (loc, msg, exp.verb),
                          "handler aborted (%s: %s) after %r" % (loc, msg, self.history[-1][1]),
                          self.step_no)
            self.violations.append(v)
            self.dead = True
            return self.violations[V0:]
        if snap is not None:
            nicks = [n for n in snap["users"] if n in self.model.owner or n in pre.owner]
        else:
            nicks = list(set(self.model.owner) | set(pre.owner))
        # the owner map used for the barrier must know both old and new names
        lookup = dict(pre.owner)
        lookup.update(self.model.owner)
        save_owner = self.model.owner
        self.model.owner = lookup
        try:
            inbox, closed = self.barrier(nicks)
        except Inconclusive as ex:
            if "monitor connection closed" in str(ex) and 0 not in exp.closes:
                # nothing in this step may end the monitor's session: either the whole server stopped after a
                # command that should have been refused / harmless, or a bystander was disconnected
                time.sleep(0.3)
                gone = not self.srv.alive()
                self.shapes[exp.shape] += 1
                self.violate("server-stopped" if gone else "bystander-closed", exp.props | {"C05"}, exp.shape,
                             "%s after %r (expected: %s)" % (
                                 "the server process ended" if gone else "the monitor client's connection was closed",
                                 self.history[-1][1] if self.history else "", exp.shape))
                self.dead = True
                return self.violations[V0:]
            if "barrier timed out" in str(ex):
                # the whole watchdog period without the monitor's own message coming back: ask the server itself
                state = sut_diagnose(self.srv, self.tls)
                if state in ("dead", "hung"):
                    self.shapes[exp.shape] += 1
                    self.violate("server-stopped" if state == "dead" else "server-hung", exp.props | {"C05", "C18"},
                                 exp.shape, "%s after %r: no client is answered any more (a fresh connection waited 8 s "
                                 "for the answer to its PING)" % ("the server process ended" if state == "dead" else
                                                                  "the server process is alive but serves nobody",
                                                                  self.history[-1][1] if self.history else ""))
                    self.dead = True
                    return self.violations[V0:]
            raise
        finally:
            self.model.owner = save_owner
        if self.lost_barrier is not None:
            k, n, tag = self.lost_barrier
            self.violate("message-lost", exp.props | {"C01", "C05"}, exp.shape,
                         "a PRIVMSG of the monitor client to the registered nick %s (connection %s, which answers PINGs) "
                         "never arrived (%s) after %r" % (n, k, tag, self.history[-1][1] if self.history else ""))
            self.dead = True
        if self.stalled is not None:
            k, n = self.stalled
            self.violate("connection-stalled", exp.props | {"C05", "C18"}, exp.shape,
                         "connection %s (%s) answers nothing for %.0f s while a fresh connection is served at once, after %r"
                         % (k, n, self.watchdog, self.history[-1][1] if self.history else ""))
            self.dead = True
        if cid is not None:
            inbox[cid] = list(actor_lines) + inbox.get(cid, [])
            if actor_closed:
                closed[cid] = actor_closed
        self.shapes[exp.shape] += 1
        for cv in exp.cover:
            self.cover[cv] += 1

        # --- closes
        for k in exp.closes:
            if k not in closed and k in self.clients and k != cid:
                # e.g. KILL victim: it must see ERROR and EOF
                lines, kind = self.clients[k].read_to_eof(5.0)
                inbox[k] = inbox.get(k, []) + lines
                if kind is None:
                    self.violate("not-closed", exp.props, exp.shape, "connection %s not closed" % k)
                else:
                    closed[k] = kind
        for k, kind in closed.items():
            if k not in exp.closes:
                self.violate("unexpected-close", exp.props | {"C05"}, exp.shape,
                             "connection %s (%s) closed by the server (%s) after %r"
                             % (k, pre.conn.get(k, {}).get("nick"), kind,
                                self.history[-1][1] if self.history else ""))
        for k, needle in exp.error_to.items():
            errs = [m for m in inbox.get(k, []) if m.verb.startswith("ERROR")]
            if not errs or needle not in errs[-1].raw:
                self.violate("kill-error", exp.props, exp.shape,
                             "victim's ERROR line %r does not name %s" % ([m.raw for m in errs], needle))

        # --- relays (all non-numeric lines), exact multiset per connection
        got = collections.defaultdict(list)
        numerics = collections.defaultdict(list)
        for k, lines in inbox.items():
            for m in lines:
                if m.is_numeric:
                    numerics[k].append(m)
                elif m.verb in ("PONG", "PING", "CAP", "") or m.verb.startswith("ERROR"):
                    continue
                else:
                    got[k].append(m)
        if not exp.unspec_relays:
            self.check_relays(exp, got, pre)
        # --- numerics
        if cid is not None:
            nums = numerics.get(cid, [])
            if not exp.unspec_replies:
                for code, want in exp.must:
                    if not any(m.verb == code and all(len(m.params) > i and m.params[i] == v
                                                      for i, v in want.items()) for m in nums):
                        self.violate("reply-missing:" + code, exp.props, exp.shape,
                                     "expected %s %s after %r; got %s"
                                     % (code, want, self.history[-1][1], [m.raw for m in nums][:6]))
                if exp.only is not None:
                    extra = [m.raw for m in nums if m.verb not in exp.only]
                    if extra:
                        self.violate("reply-unexpected", exp.props, exp.shape,
                                     "no reply allowed after %r; got %s" % (self.history[-1][1], extra[:4]))
            for m in nums:
                if m.verb in exp.forbid:
                    self.violate("reply-forbidden:" + m.verb, exp.props, exp.shape,
                                 "%r after %r" % (m.raw, self.history[-1][1]))
            if exp.query is not None and not exp.unspec_replies:
                for d in exp.query(inbox.get(cid, [])):
                    self.violate("query:" + d.split(":")[0].split(" ")[0], exp.props, exp.shape,
                                 "%s (after %r)" % (d, self.history[-1][1]))
        for k, nums in numerics.items():
            if k != cid and k != 0 and nums:
                self.violate("bystander-numeric", exp.props, exp.shape,
                             "connection %s got %s" % (k, [m.raw for m in nums][:3]))

        # --- announcement-derived rosters (history checker for C04, independent of the model)
        self.update_derived(inbox, pre)

        # --- framing of everything the server emitted (CRLF terminated, no bare CR/LF inside)
        for k, c in self.clients.items():
            if c.bad_frames:
                self.violate("bad-frame", {"C13", "C20"}, exp.shape,
                             "connection %s received a mis-framed line: %s" % (k, c.bad_frames[:2]))
                c.bad_frames = []

        # --- bookkeeping of closed sockets
        for k in list(closed):
            if k in self.clients:
                nk = pre.conn.get(k, {}).get("nick")
                self.clients[k].close()
                del self.clients[k]
                if k not in exp.closes:
                    # the model did not expect this: forget the connection, the snapshot decides
                    self.model.conn.pop(k, None)
                    if nk is not None and self.model.owner.get(nk) == k:
                        self.disconnected.add(nk)

        # --- state
        snap = self.snap()
        if snap is not None and snap["conns_count"] != len(self.clients):
            # the slot is released when the connection task drops its state, a moment after the user is
            # removed: give it a bounded time before calling it a leak
            deadline = time.monotonic() + 2.0
            while snap["conns_count"] != len(self.clients) and time.monotonic() < deadline:
                time.sleep(0.005)
                snap = self.snap()
        if snap is not None:
            hw = max(pre.max_users, len(self.model.users))
            for inv_id, detail in invariants.check(snap, open_conns=len(self.clients),
                                                   owned_nicks=self.owned_nicks() | set(
                                                       n for n, u in self.model.users.items()
                                                       if self.model.owner.get(n) in self.clients)):
                props = {"I1": {"C04"}, "I2": {"C08", "C04"}, "I3": {"C11", "C15", "C06"},
                         "I4": {"C19"}, "I5": {"C16", "C19"}, "I6": {"C02", "C15"}, "I7": {"C02", "C06", "C05"},
                         "I8": {"C19"}, "I9": {"C05"}}[inv_id]
                # an invariant broken by this step concerns the invariant's home properties and the
                # properties the command is about
                self.violate("inv:" + inv_id, props | exp.props, exp.shape, detail)
            if not exp.unspec_state:
                d = invariants.diff(self.model.canon(), invariants.canon(snap))
                for path, a, b in d[:8]:
                    kind = "/".join(path.split("/")[1:2] + path.split("/")[3:4])
                    # a wrong state component concerns every property whose statement depends on it (the model
                    # resynchronises afterwards, so downstream checks would never see the consequence)
                    self.violate("state:" + kind, exp.props | COMPONENT_PROPS.get(kind, set()), exp.shape,
                                 "%s: model %r, server %r (after %r)"
                                 % (path, a, b, self.history[-1][1] if self.history else ""))
            if exp.verb != "NICK":
                # sessions that ended: this server does not announce them, the harness knows them from the
                # history - drop them from every reconstructed roster (a later namesake is somebody else)
                gone = set(pre.users) - set(snap["users"])
                self.ever_gone |= gone
                for d in self.derived.values():
                    for ch in d:
                        d[ch] -= gone
            if not exp.unspec_relays:
                self.check_derived(snap, exp)
            # resynchronise
            self.model.load_snapshot(snap)
            # connections whose user vanished / ghosts
            for n in list(self.model.owner):
                if n not in self.model.users:
                    k = self.model.owner.pop(n)
                    if k in self.model.conn:
                        self.model.conn[k]["nick"] = None
            for n in self.model.users:
                if n not in self.model.owner:
                    self.dead = True  # a ghost: the episode cannot go on
        if snap is not None and snap.get("handler_aborts"):
            self.dead = True
        return self.violations[V0:]

    def update_derived(self, inbox, pre):
        for k, lines in inbox.items():
            if k == 0 or k not in pre.conn and k not in self.model.conn:
                continue
            me = (pre.conn.get(k) or self.model.conn.get(k) or {}).get("nick")
            d = self.derived.setdefault(k, {})
            mynames = {}
            for m in lines:
                if m.verb == "353" and len(m.params) >= 4:
                    mynames.setdefault(m.params[2], set()).update(x.lstrip("~&@%+") for x in m.params[3].split())
            for m in lines:
                who = (m.source or "").split("!")[0]
                if m.verb == "JOIN" and m.params:
                    ch = m.params[0]
                    if who == me:
                        d[ch] = set(mynames.get(ch, set())) | {me}
                    elif ch in d:
                        d[ch].add(who)
                elif m.verb == "PART" and m.params:
                    ch = m.params[0]
                    if who == me:
                        d.pop(ch, None)
                    elif ch in d:
                        d[ch].discard(who)
                elif m.verb == "KICK" and len(m.params) >= 2:
                    ch, victim = m.params[0], m.params[1]
                    if victim == me:
                        d.pop(ch, None)
                    elif ch in d:
                        d[ch].discard(victim)
                elif m.verb == "NICK" and m.params:
                    new = m.params[0]
                    for ch in d:
                        if who in d[ch]:
                            d[ch].discard(who)
                            d[ch].add(new)
                    if who == me:
                        me = new

    def check_derived(self, snap, exp):
        """the NAMES reply received on joining plus the announcements received since reconstruct the roster
        (up to departures by disconnect, which this server does not announce)"""
        for k, chans in self.derived.items():
            c = self.model.conn.get(k)
            if c is None or k not in self.clients or c["nick"] is None:
                continue
            me = c["nick"]
            if me not in snap["users"]:
                continue
            for ch in snap["users"][me]["channels"]:
                true = set(snap["channels"][ch]["users"]) if ch in snap["channels"] else set()
                self.derived_checks += 1
                if ch not in chans:
                    self.violate("derived-roster", {"C04"}, exp.shape,
                                 "%s is a member of %s but was never shown its own JOIN / NAMES" % (me, ch))
                    continue
                der = chans[ch]
                if not true <= der:
                    self.violate("derived-roster", {"C04"}, exp.shape,
                                 "%s's roster of %s reconstructed from NAMES-on-join + announcements lacks %s "
                                 "(true members %s)" % (me, ch, sorted(true - der), sorted(true)))
                elif der - true:
                    self.violate("derived-roster", {"C04"}, exp.shape,
                                 "%s still believes %s to be on %s: no PART/KICK/NICK announcement reached it "
                                 "(true members %s)" % (me, sorted(der - true), ch, sorted(true)))
            for ch in list(chans):
                if ch not in snap["users"][me]["channels"]:
                    # the client was removed without being told (kicked / parted silently)
                    self.violate("derived-roster", {"C04"}, exp.shape,
                                 "%s was never told that it left %s" % (me, ch))
                    chans.pop(ch)

    def check_relays(self, exp, got, pre):
        want = collections.defaultdict(list)
        opt = collections.defaultdict(list)
        special = []
        for r in exp.relays:
            if r[0] == "@members":
                special.append(r)
            elif r[0] == "@umode":
                special.append(r)
            else:
                want[r[0]].append(r[1:])
        for r in exp.relays_opt:
            opt[r[0]].append(r[1:])
        for r in special:
            if r[0] == "@members":
                _, cn, source, applied = r
                members = pre.chans[cn].members if cn in pre.chans else {}
                for mnick in members:
                    k = pre.owner[mnick]
                    self._match_mode(exp, k, got, source, cn, applied)
            else:
                _, k, source, nick, changes = r
                self._match_mode(exp, k, got, source, nick,
                                 [(s, l, None, False) for s, l in changes], user=True)
        for k in set(want) | set(got) | set(opt):
            g = list(got.get(k, []))
            for (source, verb, params) in want.get(k, []):
                self.deliveries_checked += 1
                idx = next((i for i, m in enumerate(g) if _relay_eq(m, source, verb, params, self.excess)), None)
                if idx is None:
                    self.violate("relay-missing:" + verb, exp.props, exp.shape,
                                 "connection %s (%s) did not get :%s %s %s; got %s"
                                 % (k, pre.conn.get(k, {}).get("nick"), source, verb, _show(params),
                                    [m.raw for m in g][:4]))
                else:
                    g.pop(idx)
            for (source, verb, params) in opt.get(k, []):
                idx = next((i for i, m in enumerate(g) if _relay_eq(m, source, verb, params, self.excess)), None)
                if idx is not None:
                    g.pop(idx)
            for m in g:
                self.deliveries_checked += 1
                self.violate("relay-unexpected:" + m.verb, exp.props, exp.shape,
                             "connection %s (%s) got %r" % (k, pre.conn.get(k, {}).get("nick"), m.raw))

    def _match_mode(self, exp, k, got, source, target, applied, user=False):
        """one MODE line for `target` whose change multiset equals `applied` (no-ops optional)"""
        g = got.get(k, [])
        self.deliveries_checked += 1
        idx = next((i for i, m in enumerate(g) if m.verb == "MODE" and m.source == source
                    and m.params[:1] == [target]), None)
        need = sorted((s, l, a) for s, l, a, noop in applied if not noop)
        allowed = sorted((s, l, a) for s, l, a, noop in applied)
        if idx is None:
            if need:
                self.violate("relay-missing:MODE", exp.props, exp.shape,
                             "connection %s did not get MODE %s %s" % (k, target, need))
            return
        m = g.pop(idx)
        if user:
            ann = []
            sign = "+"
            for ch in "".join(m.params[1:]):
                if ch in "+-":
                    sign = ch
                else:
                    ann.append((sign, ch, None))
        else:
            ann = parse_modeline(m.params[1:])
        ann = sorted(ann, key=lambda x: (x[0], x[1], x[2] or ""))
        need_c = collections.Counter(need)
        allowed_c = collections.Counter(allowed)
        ann_c = collections.Counter(ann)
        if (need_c - ann_c) or (ann_c - allowed_c):
            self.violate("mode-announcement", exp.props, exp.shape,
                         "connection %s got %r; accepted changes were %s" % (k, m.raw, allowed))


def _relay_eq(m, source, verb, params, excess=()):
    """`excess`: parameters the harness itself appended beyond the verb's maximum; this server relays some verbs by
    echoing the received line, so they may ride along - the receiver still re-parses the same command, target and text"""
    if m.verb != verb or m.source != source:
        return False
    if len(m.params) != len(params):
        if not excess or list(m.params[len(params):]) != list(excess) or len(m.params) != len(params) + len(excess):
            return False
    return all(p is ANY or p == q for p, q in zip(params, m.params))


def _show(params):
    return " ".join("*" if p is ANY else repr(p) for p in params)
