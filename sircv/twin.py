"""Metamorphic twins: the same script on two worlds; normalised transcripts must be equal."""
import collections

from . import wire


class ScriptWorld:
    """scripted clients on one server; every command is followed by a PING barrier on its sender,
    `settle()` lets every client drain its queue"""

    def __init__(self, srv, tls=False, password=None):
        self.srv = srv
        self.tls = tls
        self.password = password
        self.c = {}
        self.nick = {}
        self.n = 0

    def connect(self, name, nick, user=None, caps=None, realname=None):
        cl = wire.Client(self.srv.port, tls=self.tls, name=name, timeout=8.0)
        cl.keep_transcript = False
        self.c[name] = cl
        burst = cl.register(nick, user or nick, realname=realname or ("R " + nick), password=self.password,
                            caps=caps)
        self.nick[name] = nick
        return burst

    def do(self, name, line):
        self.n += 1
        cl = self.c[name]
        cl.send(line)
        lines = cl.ping("b%d" % self.n)
        w = line.split()
        if len(w) >= 2 and w[0].upper() == "NICK" and not any(m.is_numeric and m.verb[0] in "45" for m in lines) \
                and not any(m.verb.startswith("ERROR") for m in lines):
            self.nick[name] = w[1].lstrip(":")
        return lines

    def settle(self):
        """each client pings twice: queued messages of earlier commands are drained"""
        out = {}
        for name, cl in self.c.items():
            if cl.eof:
                continue
            self.n += 1
            tag = "SETTLE%d" % self.n
            # a message to oneself travels through the own queue: FIFO after everything queued before
            cl.send("PRIVMSG %s :%s" % (self.nick[name], tag))
            try:
                got = cl.read_until(lambda m: m.verb == "PRIVMSG" and m.params[-1:] == [tag])[:-1]
                out[name] = [m for m in got if not (m.verb == "301" and m.params[1:2] == [self.nick[name]])]
            except (wire.Closed, wire.Timeout):
                out[name] = []
        return out

    def close(self):
        for cl in self.c.values():
            cl.close()


def normalise(lines, drop_codes=("671",), mask_nick=None):
    """reply lines of one query -> sorted list of hashable tuples, order/chunking/timestamps removed"""
    names = collections.defaultdict(set)
    chans319 = collections.defaultdict(set)
    out = []
    for m in lines:
        if not m.is_numeric:
            out.append(("relay", m.verb, tuple(m.params)))
            continue
        if m.verb in drop_codes:
            continue
        p = m.params[1:]
        if m.verb == "353":
            names[(p[0], p[1])] |= set(p[2].split())
        elif m.verb == "319":
            chans319[p[0]] |= set(p[1].split())
        elif m.verb == "317":
            out.append(("317", p[0]))
        elif m.verb in ("329", "333"):
            out.append((m.verb, p[0]))
        elif m.verb == "367":
            out.append(("367", p[0], p[1]))
        elif m.verb in ("003", "391", "242"):
            out.append((m.verb,))
        elif m.verb == "312" and len(p) >= 3 and p[2].startswith("Logged in at"):
            out.append(("312", p[0], p[1]))
        else:
            out.append((m.verb,) + tuple(p))
    for (sym, ch), ns in names.items():
        out.append(("353", sym, ch, tuple(sorted(ns))))
    for n, cs in chans319.items():
        out.append(("319", n, tuple(sorted(cs))))
    return sorted(out, key=repr)


def diff_transcripts(a, b):
    """first differing lines between two normalised transcripts"""
    sa, sb = collections.Counter(map(repr, a)), collections.Counter(map(repr, b))
    only_a = list((sa - sb).elements())
    only_b = list((sb - sa).elements())
    return only_a, only_b
