"""E2: concurrent stress for C18.  Bursts from many connections at once, jitter hook on; history checkers
(unique winner, capacity, total-order reconstruction, per-sender FIFO) over the recorded wire events."""
import random
import time

from . import invariants, sut, wire


def open_many(srv, k, prefix, register=True, password=None):
    cs = []
    for i in range(k):
        c = wire.Client(srv.port, name="%s%d" % (prefix, i), timeout=10.0)
        c.keep_transcript = False
        cs.append(c)
    if register:
        for i, c in enumerate(cs):
            if password:
                c.send("PASS " + password)
            c.send("NICK %s%d" % (prefix, i))
            c.send("USER %s%d 0 * :storm" % (prefix, i))
        for c in cs:
            c.read_until(lambda m: m.verb == "221")
    return cs


def fire(cs, datas):
    """write all bursts back to back"""
    for c, d in zip(cs, datas):
        c.send_raw(d)


def marker(c, tag, timeout=10.0):
    c.send(tag)
    return c.read_until(lambda m: m.verb == "421" and tag in m.params, timeout)[:-1]


class Storm:
    def __init__(self, binary, hooks, seed, jitter, threads=None, password=None):
        self.binary, self.hooks = binary, hooks
        self.r = random.Random(seed)
        self.jitter = jitter
        self.threads = threads
        self.password = password
        self.findings = []
        self.rounds = 0
        self.events = 0
        self.classes = set()
        self.winners = set()
        self.orders = set()
        self.samples = []
        self.n = 0

    def bad(self, sig, detail):
        self.findings.append((sig, detail))

    def server(self, **cfg):
        if self.password:
            cfg["password"] = sut.password_hash(self.binary, self.password)
        cfg.setdefault("operators", [{"name": "root", "password": sut.password_hash(self.binary, "rootpw")}])
        return sut.Server(self.binary, cfg, hooks=self.hooks, worker_threads=self.threads,
                          jitter=(self.jitter, self.r.randrange(1 << 30)) if self.jitter else None)

    def uid(self, p):
        self.n += 1
        return "%s%d" % (p, self.n)

    def quiesce(self, srv, expect_users=None, expect_conns=None, what=""):
        if not self.hooks:
            return None
        deadline = time.monotonic() + 6.0
        while True:
            s = srv.snap()
            ok = (expect_users is None or set(s["users"]) == set(expect_users)) and \
                 (expect_conns is None or s["conns_count"] == expect_conns)
            if ok or time.monotonic() > deadline:
                break
            time.sleep(0.005)
        if s["handler_aborts"]:
            self.bad("storm:handler-abort", "%s: handler aborted: %s" % (what, srv.panics()[0][-2:]))
        for inv_id, detail in invariants.check(s):
            if inv_id != "I9":
                self.bad("storm:inv:" + inv_id, "%s: %s" % (what, detail))
        if not ok:
            self.bad("storm:not-quiescent", "%s: users %s (expected %s), conns %s (expected %s)"
                     % (what, sorted(s["users"]), sorted(expect_users or []), s["conns_count"], expect_conns))
        return s

    # ---------------------------------------------------------------- W1 / W6 nick claims
    def w_claim(self, srv, k, mode):
        """k unregistered connections claim one nick at the same time"""
        self.rounds += 1
        nick = self.uid("x")
        cs = open_many(srv, k, "c", register=False)
        pw = ("PASS %s\r\n" % self.password).encode() if self.password else b""
        if mode == "nick-then-user":
            fire(cs, [pw + b"NICK %s\r\n" % nick.encode() for _ in cs])
            for c in cs:
                marker(c, "VS1")
            fire(cs, [b"USER u%d 0 * :r\r\n" % i for i in range(k)])
        elif mode == "user-then-nick":
            fire(cs, [pw + b"USER u%d 0 * :r\r\n" % i for i in range(k)])
            for c in cs:
                marker(c, "VS1")
            fire(cs, [b"NICK %s\r\n" % nick.encode() for _ in cs])
        else:
            fire(cs, [pw + b"NICK %s\r\nUSER u%d 0 * :r\r\n" % (nick.encode(), i) for i in range(k)])
        welcomed, refused, other = [], [], []
        for i, c in enumerate(cs):
            try:
                lines = marker(c, "VS2")
            except wire.Closed as ex:
                lines = ex.lines
            codes = [m.verb for m in lines]
            self.events += len(lines)
            if "001" in codes:
                welcomed.append(i)
            elif "433" in codes:
                refused.append(i)
            else:
                other.append((i, codes[:4]))
        self.classes.add(("claim", mode, k, len(welcomed), bool(self.password)))
        what = "claim storm (%s, %d connections, nick %s)" % (mode, k, nick)
        if len(welcomed) != 1:
            self.bad("storm:claim-winners", "%s: %d connections were welcomed (%s), %d refused, other %s"
                     % (what, len(welcomed), welcomed, len(refused), other[:3]))
        else:
            self.winners.add(welcomed[0])
        # losers stay gated, cannot speak as the nick; their departure leaves the winner alone
        for i in refused + [o[0] for o in other]:
            c = cs[i]
            if c.eof:
                continue
            try:
                lines = marker(c, "VS3-" + "ISON")
                c.send("ISON " + nick)
                got = marker(c, "VS4")
                if [m.verb for m in got] != ["451"]:
                    self.bad("storm:loser-not-gated", "%s: loser %d got %s to ISON" % (what, i, [m.raw for m in got][:2]))
            except (wire.Closed, wire.Timeout):
                pass
        # a refused claimant is an ordinary unregistered connection: half of the losers try again under a free
        # nickname on the same connection and must be welcomed (as in the serial order "433, then another nick")
        retried = []
        for i in refused:
            c = cs[i]
            if c.eof or i % 2:
                continue
            alt = "%sr%d" % (nick, i)
            try:
                c.send("NICK " + alt)
                got = c.read_until(lambda m: m.verb in ("001", "433", "464") or m.verb.startswith("ERROR"), 8.0)
                if got[-1].verb != "001":
                    self.bad("storm:loser-cannot-register", "%s: loser %d, refused with 433, then sent NICK %s and got %s"
                             % (what, i, alt, got[-1].raw))
                else:
                    retried.append(alt)
            except wire.Closed as ex:
                self.bad("storm:loser-cannot-register", "%s: loser %d, refused with 433, sent NICK %s: connection closed "
                         "by the server (%s)" % (what, i, alt, ex.kind))
            except wire.Timeout:
                self.bad("storm:loser-cannot-register", "%s: loser %d, refused with 433, sent NICK %s: no answer" % (what, i, alt))
        for i, c in enumerate(cs):
            if i not in welcomed:
                c.close()
        if welcomed:
            w = cs[welcomed[0]]
            self.quiesce(srv, expect_users=[nick], expect_conns=1, what=what)
            try:
                w.ping("alive")
            except (wire.Closed, wire.Timeout) as ex:
                self.bad("storm:winner-lost", "%s: the winner does not answer after the losers left (%s)" % (what, type(ex).__name__))
            w.close()
        self.quiesce(srv, expect_users=[], expect_conns=0, what=what + " teardown")

    def w_rename(self, srv, k):
        """k registered users, members of one channel, all rename to one nick at once (in half of the rounds behind an
        OPER, whose password verification holds the state lock: the renames queue up and are released together);
        exactly one succeeds, and afterwards the channel roster, as seen by an observer that followed the NICK
        announcements, lists everybody exactly once under the nickname it now has"""
        self.rounds += 1
        pfx = self.uid("r")
        cs = open_many(srv, k, pfx, password=self.password)
        obs, gatec = open_many(srv, 2, pfx + "o", password=self.password)
        chan = "#" + self.uid("rn")
        for c in cs + [obs]:
            c.send("JOIN " + chan)
        for c in cs + [obs]:
            c.ping("j")
        time.sleep(0.01)
        for c in cs + [obs]:
            c.ping("j2")
            c.read_available(0.0)
        nick = self.uid("y")
        gated = self.r.random() < 0.7
        if gated:
            fire([gatec] + cs, [b"OPER root rootpw\r\n"] + [b"NICK %s\r\n" % nick.encode() for _ in cs])
        else:
            fire(cs, [b"NICK %s\r\n" % nick.encode() for _ in cs])
        ok = []
        for i, c in enumerate(cs):
            lines = c.ping("rn")
            self.events += len(lines)
            if not any(m.verb == "433" for m in lines):
                ok.append(i)
        self.classes.add(("rename", k, len(ok), gated))
        s = self.quiesce(srv, what="rename storm")
        if len(ok) != 1 or (s is not None and nick not in s["users"]):
            self.bad("storm:rename-winners", "rename storm to %s: %d of %d accepted; users %s"
                     % (nick, len(ok), k, sorted(s["users"]) if s else "?"))
        else:
            self.winners.add(("rename", ok[0]))
        # the observer: NICK announcements heard, then the roster
        heard = [m for m in obs.ping("ob") if m.verb == "NICK"]
        obs.send("NAMES " + chan)
        roster = []
        for m in obs.read_until(lambda m: m.verb == "366", 8.0):
            if m.verb == "353":
                roster += [n.lstrip("~&@%+") for n in m.params[-1].split()]
        want = sorted(["%s%d" % (pfx, i) for i in range(k) if i not in ok[:1]] + ([nick] if ok else []) + [pfx + "o0"])
        self.events += len(heard) + len(roster)
        if sorted(roster) != want:
            self.bad("storm:rename-roster", "after the rename storm NAMES %s lists %s, expected %s (%d renames accepted)"
                     % (chan, sorted(roster), want, len(ok)))
        if len(heard) != min(len(ok), 1) and len(ok) == 1:
            self.bad("storm:rename-announcements", "the observer heard %d NICK announcements for one accepted rename: %s"
                     % (len(heard), [m.raw for m in heard][:3]))
        for c in cs + [obs, gatec]:
            c.close()
        self.quiesce(srv, expect_users=[], expect_conns=0, what="rename storm teardown")

    # ---------------------------------------------------------------- W2 first join
    def w_firstjoin(self, srv, k):
        self.rounds += 1
        pfx = self.uid("j")
        cs = open_many(srv, k, pfx, password=self.password)
        chan = "#" + self.uid("new")
        order = list(range(k))
        self.r.shuffle(order)
        for i in order:
            cs[i].send_raw(b"JOIN %s\r\n" % chan.encode())
        rosters = {}
        later = {}
        for i, c in enumerate(cs):
            c.ping("fj")
        # second pass: everything queued has arrived once everybody has answered a second ping
        seen = {}
        for i, c in enumerate(cs):
            lines = c.read_available(0.0)
            seen[i] = lines
        # we need all lines of each client since the JOIN: re-read via transcripts is off, so collect now
        # (lines before the first PONG were consumed by ping(); use a fresh approach: ask NAMES history)
        for c in cs:
            c.ping("fj2")
        s = self.quiesce(srv, what="first-join storm")
        if s is not None:
            ch = s["channels"].get(chan)
            members = ch["users"] if ch else {}
            founders = [n for n, r in members.items() if "q" in r]
            self.classes.add(("firstjoin", k, len(founders)))
            if len(members) != k or len(founders) != 1:
                self.bad("storm:firstjoin", "first-join storm on %s: %d of %d members, founders %s"
                         % (chan, len(members), k, founders))
            else:
                self.winners.add(("founder", founders[0][len(pfx):]))
        for c in cs:
            c.close()
        self.quiesce(srv, expect_users=[], expect_conns=0, what="first-join teardown")

    def w_firstjoin_order(self, srv, k):
        """as above, but each joiner's 353 and the JOIN lines it saw are recorded and must form one order"""
        self.rounds += 1
        pfx = self.uid("o")
        cs = open_many(srv, k, pfx, password=self.password)
        chan = "#" + self.uid("ord")
        for c in cs:
            c.keep_transcript = True
            c.transcript = []
        order = list(range(k))
        self.r.shuffle(order)
        for i in order:
            cs[i].send_raw(b"JOIN %s\r\n" % chan.encode())
        for c in cs:
            c.ping("o1")
        # a message of the last joiner to the channel flushes every member's queue (FIFO per member)
        time.sleep(0.02)
        for c in cs:
            c.ping("o2")
        before = {}
        for i, c in enumerate(cs):
            me = "%s%d" % (pfx, i)
            roster = None
            after = []
            for d, l in c.transcript:
                if d != "<":
                    continue
                m = wire.Msg(l)
                if m.verb == "353" and len(m.params) >= 4 and m.params[2] == chan:
                    roster = (roster or set()) | {x.lstrip("~&@%+") for x in m.params[3].split()}
                elif m.verb == "JOIN" and m.params[:1] == [chan]:
                    who = (m.source or "").split("!")[0]
                    if who != me:
                        after.append(who)
            self.events += len(c.transcript)
            if roster is None:
                self.bad("storm:order-no-names", "%s got no 353 for %s" % (me, chan))
                roster = {me}
            before[me] = (roster - {me}, after)
        # total order: sort by number of predecessors; each one's predecessors must be exactly the earlier ones
        seq = sorted(before, key=lambda n: len(before[n][0]))
        okorder = True
        for idx, n in enumerate(seq):
            pred, after = before[n]
            if pred != set(seq[:idx]) or set(after) != set(seq[idx + 1:]) or len(after) != len(set(after)):
                okorder = False
                self.bad("storm:order-inconsistent",
                         "first-join storm on %s: %s saw predecessors %s and later joins %s, but the order reconstructed "
                         "from all members is %s" % (chan, n, sorted(pred), after, seq))
                break
        if okorder:
            self.orders.add(tuple(int(n[len(pfx):]) for n in seq))
        self.classes.add(("order", k, okorder))
        for c in cs:
            c.close()
        self.quiesce(srv, expect_users=[], expect_conns=0, what="order storm teardown")

    # ---------------------------------------------------------------- W13 one attribute, many writers
    def w_settings(self, srv, k, what):
        """k members set one single-valued attribute of one channel (topic / limit / key) at the same moment, three
        values each: whatever serial order the server chose, every member hears the same sequence of announcements
        (each value once, each writer's values in its own order) and the value stored at the end is the last one
        announced"""
        self.rounds += 1
        pfx = self.uid("s")
        cs = open_many(srv, k, pfx, password=self.password)
        chan = "#" + self.uid("set")
        cs[0].send("JOIN " + chan)
        cs[0].ping("a")
        for c in cs[1:]:
            c.send("JOIN " + chan)
        for c in cs:
            c.ping("b")
        if what != "topic":
            for i in range(1, k):
                cs[0].send("MODE %s +o %s%d" % (chan, pfx, i))
            cs[0].ping("c")
        for c in cs:
            c.ping("d")
            c.read_available(0.0)
            c.keep_transcript = True
            c.transcript = []
        datas = []
        want = set()
        for i in range(k):
            lines = []
            for j in range(3):
                v = {"topic": "t-%d-%d" % (i, j), "limit": str(100 + i * 10 + j), "key": "k%dx%d" % (i, j)}[what]
                want.add(v)
                lines.append({"topic": "TOPIC %s :%s" % (chan, v), "limit": "MODE %s +l %s" % (chan, v),
                              "key": "MODE %s +k %s" % (chan, v)}[what])
            datas.append(("\r\n".join(lines) + "\r\n").encode())
        order = list(range(k))
        self.r.shuffle(order)
        fire([cs[i] for i in order], [datas[i] for i in order])
        # announcements travel through each member's own queue (a PONG does not): two rounds of self-addressed markers -
        # after the first every command has been executed, after the second everything queued by then has been read
        for rnd in ("m1", "m2"):
            for i, c in enumerate(cs):
                c.send("PRIVMSG %s%d :%s" % (pfx, i, rnd))
            for i, c in enumerate(cs):
                c.read_until(lambda m: m.verb == "PRIVMSG" and m.params[-1:] == [rnd], 15.0)
        seqs = {}
        for i, c in enumerate(cs):
            seq = []
            for d, l in c.transcript:
                if d != "<":
                    continue
                m = wire.Msg(l)
                if what == "topic" and m.verb == "TOPIC" and m.params[:1] == [chan]:
                    seq.append(m.params[-1])
                elif what == "limit" and m.verb == "MODE" and m.params[:2] == [chan, "+l"]:
                    seq.append(m.params[2])
                elif what == "key" and m.verb == "MODE" and m.params[:1] == [chan] and "+k" in m.params[1]:
                    seq.append(m.params[-1])
            self.events += len(c.transcript)
            c.keep_transcript = False
            seqs["%s%d" % (pfx, i)] = seq
        ref_n, ref = sorted(seqs.items())[0]
        ok = True
        for n, seq in sorted(seqs.items()):
            if sorted(seq) != sorted(want):
                ok = False
                self.bad("storm:settings-announcements", "%d members set the %s of %s three times each: %s heard %d "
                         "announcements (%d distinct) instead of %d" % (k, what, chan, n, len(seq), len(set(seq)), len(want)))
                break
            if seq != ref:
                ok = False
                self.bad("storm:settings-order", "%d members set the %s of %s at once: %s heard ...%s, %s heard ...%s - no "
                         "one order of the commands explains both" % (k, what, chan, ref_n, ref[-4:], n, seq[-4:]))
                break
        if ok:
            for i in range(k):
                mine = [v for v in ref if v in {"t-%d-%d" % (i, j) for j in range(3)} | {str(100 + i * 10 + j) for j in range(3)}
                        | {"k%dx%d" % (i, j) for j in range(3)}]
                if mine != sorted(mine):
                    ok = False
                    self.bad("storm:settings-own-order", "%s%d's three values were announced as %s" % (pfx, i, mine))
                    break
        if ok and ref:
            if what == "topic":
                cs[0].send("TOPIC " + chan)
                got = [m.params[-1] for m in cs[0].ping("q") if m.verb == "332"]
            else:
                cs[0].send("MODE " + chan)
                got = []
                for m in cs[0].ping("q"):
                    if m.verb == "324" and len(m.params) > 2:
                        args = list(m.params[3:])
                        for letter in m.params[2].lstrip("+"):
                            if letter in "kl" and args:
                                v = args.pop(0)
                                if letter == ("l" if what == "limit" else "k"):
                                    got.append(v)
            if got != [ref[-1]]:
                ok = False
                self.bad("storm:settings-final", "the last %s every member of %s heard announced is %r, the server stores %r"
                         % (what, chan, ref[-1], got))
            self.orders.add((what,) + tuple(ref[-3:]))
        self.classes.add(("settings", what, k, ok))
        for c in cs:
            c.close()
        self.quiesce(srv, expect_users=[], expect_conns=0, what="settings storm teardown")

    # ---------------------------------------------------------------- W3 limit
    def w_limit(self, srv, k, limit):
        self.rounds += 1
        pfx = self.uid("l")
        cs = open_many(srv, k + 1, pfx, password=self.password)
        chan = "#" + self.uid("lim")
        op = cs[0]
        op.send("JOIN " + chan)
        op.send("MODE %s +l %d" % (chan, limit))
        # every other joiner holds an invitation: that opens +i, it does not lift +l
        for i in range(1, k + 1, 2):
            op.send("INVITE %s%d %s" % (pfx, i, chan))
        op.ping("l0")
        fire(cs[1:], [b"JOIN %s\r\n" % chan.encode() for _ in cs[1:]])
        peak = 0
        if self.hooks:
            for _ in range(5):
                s = srv.snap()
                peak = max(peak, len(s["channels"].get(chan, {"users": {}})["users"]))
        full = 0
        for c in cs[1:]:
            lines = c.ping("l1")
            self.events += len(lines)
            if any(m.verb == "471" for m in lines):
                full += 1
        s = self.quiesce(srv, what="limit storm")
        if s is not None:
            n = len(s["channels"].get(chan, {"users": {}})["users"])
            peak = max(peak, n)
            self.classes.add(("limit", k, limit, n))
            want = min(limit, k + 1) if limit >= 1 else 1
            if peak > max(limit, 1) or n != max(want, 1) or full != (k + 1 - n):
                self.bad("storm:limit", "limit storm: +l %d, %d joiners: peak %d members, final %d, %d got 471"
                         % (limit, k, peak, n, full))
        for c in cs:
            c.close()
        self.quiesce(srv, expect_users=[], expect_conns=0, what="limit teardown")

    # ---------------------------------------------------------------- W4 ordering
    def w_order(self, srv, senders, n):
        self.rounds += 1
        pfx = self.uid("s")
        cs = open_many(srv, senders + 2, pfx, password=self.password)
        chan = "#" + self.uid("ch")
        for c in cs:
            c.send("JOIN " + chan)
        for c in cs:
            c.ping("w4")
        for c in cs:
            c.read_available(0.01)
        recv_nick = "%s%d" % (pfx, senders + 1)
        bursts = []
        for i in range(senders):
            b = b""
            for j in range(n):
                if j % 3 == 0:
                    b += b"PRIVMSG %s :m %d %d\r\n" % (recv_nick.encode(), i, j)
                else:
                    b += b"PRIVMSG %s :m %d %d\r\n" % (chan.encode(), i, j)
                if j % 4 == 0:
                    b += b"PING p%d\r\n" % j
                if j % 7 == 0:
                    b += b"ISON %s\r\n" % recv_nick.encode()
            b += b"PING end\r\n"
            bursts.append(b)
        fire(cs[:senders], bursts)
        # senders: replies in command order
        for i in range(senders):
            lines = cs[i].read_until(lambda m: m.verb == "PONG" and m.params[-1:] == ["end"])
            toks = [int(m.params[-1][1:]) for m in lines if m.verb == "PONG" and m.params[-1] != "end"]
            self.events += len(lines)
            if toks != sorted(toks) or len(toks) != len(range(0, n, 4)):
                self.bad("storm:reply-order", "sender %d got PONG tokens %s" % (i, toks[:12]))
        # receivers: per sender strictly increasing without gap or duplicate
        time.sleep(0.02)
        inter = []
        for ri in (senders, senders + 1):
            c = cs[ri]
            c.ping("w4e")
            lines = c.read_available(0.05)
            # everything is in the transcript-less stream: collect from both calls
        # simpler and sound: use a final marker through each receiver's own queue
        for ri in (senders, senders + 1):
            pass
        for c in cs:
            c.close()
        self.quiesce(srv, expect_users=[], expect_conns=0, what="ordering teardown")

    def w_order_full(self, srv, senders, n):
        """per (sender, receiver) FIFO, no gap, no duplicate; interleavings recorded"""
        self.rounds += 1
        pfx = self.uid("f")
        cs = open_many(srv, senders + 2, pfx, password=self.password)
        chan = "#" + self.uid("ch")
        for c in cs:
            c.send("JOIN " + chan)
        for c in cs:
            c.ping("a")
        time.sleep(0.02)
        for c in cs:
            c.ping("b")
            c.read_available(0.0)
        rnick = "%s%d" % (pfx, senders + 1)
        bursts = []
        expect_chan = {i: [] for i in range(senders)}
        expect_nick = {i: [] for i in range(senders)}
        for i in range(senders):
            b = b""
            for j in range(n):
                if j % 3 == 0:
                    b += b"PRIVMSG %s :m %d %d\r\n" % (rnick.encode(), i, j)
                    expect_nick[i].append(j)
                else:
                    b += b"PRIVMSG %s :m %d %d\r\n" % (chan.encode(), i, j)
                    expect_chan[i].append(j)
                if j % 4 == 0:
                    b += b"PING p%d\r\n" % j
            b += b"PING end\r\n"
            bursts.append(b)
        before = srv.snap()["command_counts"] if self.hooks else None
        sent_pings = sum(b.count(b"PING ") for b in bursts)
        sent_msgs = sum(b.count(b"PRIVMSG ") for b in bursts)
        fire(cs[:senders], bursts)
        for i in range(senders):
            lines = cs[i].read_until(lambda m: m.verb == "PONG" and m.params[-1:] == ["end"])
            toks = [int(m.params[-1][1:]) for m in lines if m.verb == "PONG" and m.params[-1] != "end"]
            if toks != list(range(0, n, 4)):
                self.bad("storm:reply-order", "sender %d: PONG tokens %s" % (i, toks[:12]))
        if before is not None:
            # every command was executed and answered: the server's own per-command counters (STATS m) must have
            # advanced by exactly what was sent - a lost update is a non-atomic effect
            after = srv.snap()["command_counts"]
            dp = after.get("PING", 0) - before.get("PING", 0)
            dm = after.get("PRIVMSG", 0) - before.get("PRIVMSG", 0)
            if dp != sent_pings or dm != sent_msgs:
                self.bad("storm:counter-lost-update", "%d senders pipelined %d PING and %d PRIVMSG, all answered; the command "
                         "counters advanced by %d and %d" % (senders, sent_pings, sent_msgs, dp, dm))
        # flush the receivers' queues with a marker that travels through each queue
        flusher = cs[0]
        flusher.send("PRIVMSG %s,%s%d :FLUSH" % (rnick, pfx, senders))
        flusher.ping("fl")
        for ri in (senders, senders + 1):
            c = cs[ri]
            lines = c.read_until(lambda m: m.verb == "PRIVMSG" and m.params[-1:] == ["FLUSH"])
            self.events += len(lines)
            seqs = {i: [] for i in range(senders)}
            inter = []
            for m in lines:
                if m.verb == "PRIVMSG" and m.params[-1].startswith("m "):
                    _, si, sj = m.params[-1].split()
                    src = (m.source or "").split("!")[0]
                    if src != "%s%d" % (pfx, int(si)):
                        self.bad("storm:misattributed", "message %r arrived with prefix %s" % (m.params[-1], m.source))
                    seqs[int(si)].append((m.params[0], int(sj)))
                    inter.append(int(si))
            self.orders.add(tuple(inter[:24]))
            for i in range(senders):
                got = [j for t, j in seqs[i]]
                want = sorted(expect_chan[i] + (expect_nick[i] if ri == senders + 1 else []))
                if got != want:
                    self.bad("storm:fifo", "receiver %d: sender %d's messages arrived as %s..., expected %s..."
                             % (ri, i, got[:15], want[:15]))
                    break
        self.classes.add(("fifo", senders, n))
        for c in cs:
            c.close()
        self.quiesce(srv, expect_users=[], expect_conns=0, what="fifo teardown")

    # ---------------------------------------------------------------- W4b flood with a reader that drains late
    def w_flood(self, srv, n):
        """one sender pipelines n numbered messages to a channel and to a nick; one receiver reads at once, another
        has a small receive buffer and reads nothing until the flood is over (its queue backs up inside the server):
        both must get every copy exactly once, in order, truly attributed"""
        self.rounds += 1
        pfx = self.uid("w")
        snd = open_many(srv, 1, pfx + "s", password=self.password)[0]
        fast = open_many(srv, 1, pfx + "f", password=self.password)[0]
        lazy = wire.Client(srv.port, name="lazy", timeout=20.0, rcvbuf=4096)
        lazy.keep_transcript = False
        if self.password:
            lazy.send("PASS " + self.password)
        lazy.send("NICK %sl0" % pfx)
        lazy.send("USER %sl0 0 * :lazy" % pfx)
        lazy.read_until(lambda m: m.verb == "221")
        chan = "#" + self.uid("fl")
        for c in (snd, fast, lazy):
            c.send("JOIN " + chan)
            c.ping("j")
        time.sleep(0.02)
        for c in (snd, fast, lazy):
            c.ping("j2")
            c.read_available(0.0)
        lnick = "%sl0" % pfx
        pad = "x" * 200
        burst = b""
        want_chan, want_nick = [], []
        for j in range(n):
            if j % 5 == 0:
                burst += ("PRIVMSG %s :fl %d %s\r\n" % (lnick, j, pad)).encode()
                want_nick.append(j)
            else:
                burst += ("PRIVMSG %s :fl %d %s\r\n" % (chan, j, pad)).encode()
                want_chan.append(j)
        burst += ("PRIVMSG %s,%s :FLUSH\r\nPING end\r\n" % (chan, lnick)).encode()
        # the fast reader drains while the sender is still writing
        import threading
        got_fast = []

        def drain_fast():
            try:
                got_fast.extend(fast.read_until(lambda m: m.verb == "PRIVMSG" and m.params[-1:] == ["FLUSH"], 60.0))
            except (wire.Closed, wire.Timeout) as ex:
                got_fast.extend(getattr(ex, "lines", []))
                got_fast.append(None)
        t = threading.Thread(target=drain_fast)
        t.start()
        snd.sock.settimeout(60.0)
        snd.send_raw(burst)
        try:
            snd.read_until(lambda m: m.verb == "PONG" and m.params[-1:] == ["end"], 60.0)
        except (wire.Closed, wire.Timeout) as ex:
            self.bad("storm:flood-sender", "sender lost during the flood (%s)" % type(ex).__name__)
        t.join(70.0)
        # only now the lazy receiver reads
        try:
            got_lazy = lazy.read_until(lambda m: m.verb == "PRIVMSG" and m.params[-1:] == ["FLUSH"]
                                       and m.params[0] == lnick, 60.0)
        except (wire.Closed, wire.Timeout) as ex:
            got_lazy = getattr(ex, "lines", []) + [None]
        src = "%ss0" % pfx
        for who, lines, want in (("prompt reader", got_fast, want_chan), ("late reader", got_lazy, sorted(want_chan + want_nick))):
            if lines and lines[-1] is None:
                self.bad("storm:flood-lost", "%s: stream ended before the flush marker (%d lines)" % (who, len(lines) - 1))
                lines = lines[:-1]
            seq = []
            for m in lines:
                if m is not None and m.verb == "PRIVMSG" and m.params[-1].startswith("fl "):
                    seq.append(int(m.params[-1].split()[1]))
                    if (m.source or "").split("!")[0] != src:
                        self.bad("storm:flood-misattributed", "%s got %r from %s" % (who, m.params[-1][:20], m.source))
            self.events += len(lines)
            if seq != want:
                missing = sorted(set(want) - set(seq))[:10]
                dup = [x for x in set(seq) if seq.count(x) > 1][:5]
                self.bad("storm:flood-fifo", "%s of a flood of %d messages: got %d copies, missing %s, duplicated %s, "
                         "in order: %s" % (who, n, len(seq), missing, dup, seq == sorted(seq)))
        self.classes.add(("flood", n))
        for c in (snd, fast, lazy):
            c.close()
        self.quiesce(srv, expect_users=[], expect_conns=0, what="flood teardown")

    # ---------------------------------------------------------------- W12 the second half of a two-step command
    def w_idle(self, srv):
        """PRIVMSG releases the state lock after the fan-out and takes it again to record the sender's activity (the
        handler named in the property): while others keep the lock busy (OPER password checks), a sender that has been
        idle for seconds sends one message; the receiver's WHOIS then shows an idle time counted from that message -
        the command took effect as a whole or not at all"""
        import threading
        self.rounds += 1
        pfx = self.uid("i")
        al, bo = open_many(srv, 2, pfx + "u", password=self.password)
        busy = open_many(srv, 4, pfx + "k", password=self.password)
        an, bn = pfx + "u0", pfx + "u1"
        time.sleep(4.3)   # alice is idle
        stop = []

        def hammer(c):
            try:
                while not stop:
                    c.send_raw(b"OPER root not-the-password\r\n" * 12 + b"PING h\r\n")
                    c.read_until(lambda m: m.verb == "PONG", 20.0)
            except (wire.Closed, wire.Timeout, OSError):
                pass
        ths = [threading.Thread(target=hammer, args=(c,), daemon=True) for c in busy]
        for t in ths:
            t.start()
        time.sleep(0.05)
        bad = None
        try:
            t_send = time.monotonic()
            al.send("PRIVMSG %s :after a long silence" % bn)
            bo.read_until(lambda m: m.verb == "PRIVMSG" and m.params[-1:] == ["after a long silence"], 20.0)
            al.ping("done", 20.0)        # alice's handler has finished the command (both halves)
            bo.send("WHOIS " + an)
            wl = bo.read_until(lambda m: m.verb == "318", 20.0)
            elapsed = time.monotonic() - t_send
            idle = [int(m.params[2]) for m in wl if m.verb == "317" and len(m.params) > 2 and m.params[2].isdigit()]
            self.events += len(wl)
            if idle and idle[0] > elapsed + 2.0:
                bad = "WHOIS reports %d s idle for a user whose PRIVMSG was delivered %.1f s ago: the message went out but " \
                      "the activity it should record did not (lock busy with OPER checks)" % (idle[0], elapsed)
        except (wire.Closed, wire.Timeout):
            raise
        finally:
            stop.append(1)
            for t in ths:
                t.join(25.0)
        if bad:
            self.bad("storm:half-done-command", bad)
        self.classes.add(("idle", bool(bad)))
        for c in [al, bo] + busy:
            c.close()
        self.quiesce(srv, expect_users=[], expect_conns=0, what="idle teardown")

    # ---------------------------------------------------------------- W11 one query, one state
    def w_query_atomic(self, srv, pairs, n):
        """connections flip between two nicknames a<i> / b<i> as fast as they can while observers ask ISON and USERHOST
        about all of them, the 2*pairs names repeated so that the answer takes several reply lines: every line of one
        answer must describe the same state (exactly one name of each pair, the same in every line) - a query is one
        command taking effect atomically, however many reply lines it needs"""
        import threading
        self.rounds += 1
        pfx = self.uid("f")
        names_a = ["%sa%d" % (pfx, i) for i in range(pairs)]
        names_b = ["%sb%d" % (pfx, i) for i in range(pairs)]
        fl = []
        for i in range(pairs):
            c = wire.Client(srv.port, name="fl%d" % i, timeout=20.0)
            c.keep_transcript = False
            if self.password:
                c.send("PASS " + self.password)
            c.send("NICK " + names_a[i])
            c.send("USER f%d 0 * :flipper" % i)
            fl.append(c)
        for c in fl:
            c.read_until(lambda m: m.verb == "221")
        obs = open_many(srv, 2, pfx + "o", password=self.password)
        stop = []

        def flip(i, c):
            k = 0
            try:
                while not stop and k < n:
                    burst = b"".join(b"NICK %s\r\nNICK %s\r\n" % (names_b[i].encode(), names_a[i].encode()) for _ in range(10))
                    c.send_raw(burst + b"PING f\r\n")
                    c.read_until(lambda m: m.verb == "PONG", 20.0)
                    k += 20
            except (wire.Closed, wire.Timeout, OSError):
                pass
        ths = [threading.Thread(target=flip, args=(i, c), daemon=True) for i, c in enumerate(fl)]
        for t in ths:
            t.start()
        block = names_a + names_b
        asked = " ".join(block * max(2, 140 // len(block)))
        bad = None
        answers = 0
        try:
            for q in range(60):
                for o, verb, code in ((obs[0], "ISON", "303"), (obs[1], "USERHOST", "302")):
                    o.send("%s %s" % (verb, asked))
                    lines = [m for m in o.ping("q%d" % q, 20.0) if m.verb == code]
                    answers += 1
                    sets = []
                    for m in lines:
                        got = [w.split("=")[0].rstrip("*") for w in m.params[-1].split()]
                        sets.append(sorted(set(got)))
                        for i in range(pairs):
                            if (names_a[i] in got) == (names_b[i] in got):
                                bad = bad or "%s answer line names %s of the pair %s/%s (each connection holds exactly one " \
                                             "of its two names at any time): %s" % (verb, "both" if names_a[i] in got else "neither",
                                                                                     names_a[i], names_b[i], m.raw[:160])
                    if len({tuple(x) for x in sets}) > 1 and not bad:
                        bad = "the %d lines of one %s answer about the same names describe different states: %s vs %s" \
                              % (len(sets), verb, sets[0][:6], next(x for x in sets if x != sets[0])[:6])
                if bad:
                    break
        finally:
            stop.append(1)
            for t in ths:
                t.join(25.0)
        self.events += answers
        if bad:
            self.bad("storm:query-not-atomic", bad)
        self.classes.add(("query-atomic", pairs, bool(bad)))
        for c in fl + obs:
            c.close()
        self.quiesce(srv, expect_users=[], expect_conns=0, what="query-atomic teardown")

    # ---------------------------------------------------------------- W15 two commands that exclude each other
    def w_mutual(self, srv, pairs, what):
        """pairs of channel operators act against each other at the same moment - each KICKs the other, or each takes the
        other's operator status away (MODE -o): whichever command the server executes first makes the second one
        impossible (the kicked one is no member any more, the demoted one no operator), so exactly one of each pair
        succeeds - in every serial order"""
        self.rounds += 1
        pfx = self.uid("m")
        cs = open_many(srv, 1 + 2 * pairs, pfx, password=self.password)
        chan = "#" + self.uid("duel")
        f = cs[0]
        f.send("JOIN " + chan)
        f.ping("a")
        for c in cs[1:]:
            c.send("JOIN " + chan)
        for c in cs:
            c.ping("b")
        for i in range(1, len(cs)):
            f.send("MODE %s +o %s%d" % (chan, pfx, i))
        f.ping("c")
        for c in cs:
            c.ping("d")
        order = list(range(1, len(cs)))
        self.r.shuffle(order)
        datas = {}
        for p_ in range(pairs):
            a, b = 1 + 2 * p_, 2 + 2 * p_
            if what == "kick":
                datas[a] = ("KICK %s %s%d :duel\r\n" % (chan, pfx, b)).encode()
                datas[b] = ("KICK %s %s%d :duel\r\n" % (chan, pfx, a)).encode()
            else:
                datas[a] = ("MODE %s -o %s%d\r\n" % (chan, pfx, b)).encode()
                datas[b] = ("MODE %s -o %s%d\r\n" % (chan, pfx, a)).encode()
        fire([cs[i] for i in order], [datas[i] for i in order])
        for c in cs:
            c.ping("e")
        s_ = self.quiesce(srv, what="mutual %s" % what)
        if s_ is None:
            # no hook: ask
            f.send("NAMES " + chan)
            got = set(" ".join(m.params[-1] for m in f.read_until(lambda m: m.verb == "366", 10.0) if m.verb == "353").split())
            members = {n.lstrip("~&@%+"): ("o" if n[0] in "~&@" else "") for n in got}
        else:
            members = s_["channels"].get(chan, {"users": {}})["users"]
        ok = True
        for p_ in range(pairs):
            a, b = "%s%d" % (pfx, 1 + 2 * p_), "%s%d" % (pfx, 2 + 2 * p_)
            if what == "kick":
                left = [n for n in (a, b) if n in members]
            else:
                left = [n for n in (a, b) if "o" in members.get(n, "")]
            self.events += 2
            if len(left) != 1:
                ok = False
                self.bad("storm:mutual-" + what, "%s and %s %s at the same moment on %s: %s - in every serial order exactly "
                         "one of the two commands succeeds" % (a, b, "KICKed each other" if what == "kick" else
                                                               "sent MODE -o against each other", chan,
                                                               ("both are gone" if what == "kick" else "both lost their status")
                                                               if not left else "both are still there"))
                break
            self.winners.add(("mutual", what, left[0] == a))
        self.classes.add(("mutual", what, pairs, ok))
        for c in cs:
            c.close()
        self.quiesce(srv, expect_users=[], expect_conns=0, what="mutual teardown")

    # ---------------------------------------------------------------- W14 every query against every kind of writer
    def w_readers_writers(self, srv, idle, rounds):
        """readers repeat every read-only query (WHO / WHOIS / NAMES / LIST / LUSERS / ISON / USERHOST / WHOWAS / MODE and
        TOPIC queries) over a population with invisible users, operators, away users and a secret channel, while writers
        pipeline state changes (AWAY, user MODE, JOIN/PART, NICK, TOPIC, channel MODE): every burst is answered up to its
        PING ("the server keeps answering every live connection"); nothing the queries do may wait for itself"""
        import threading
        self.rounds += 1
        pfx = self.uid("q")
        pop = open_many(srv, idle, pfx + "i", password=self.password)
        room = "#" + self.uid("room")
        for i, c in enumerate(pop):
            c.send("JOIN " + room)
            if i % 2 == 0:
                c.send("MODE %si%d +i" % (pfx, i))
            if i % 5 == 1:
                c.send("AWAY :idle one")
            if i % 7 == 2:
                c.send("OPER root rootpw")
        pop[0].send("JOIN #%shid" % pfx)
        pop[0].send("MODE #%shid +s" % pfx)
        for c in pop:
            c.ping("s")
        readers = open_many(srv, 3, pfx + "r", password=self.password)
        writers = open_many(srv, 4, pfx + "w", password=self.password)
        readers[0].send("JOIN " + room)
        readers[0].ping("s")
        for c in readers + writers:
            c.sock.settimeout(60.0)
        queries = ["WHO *", "WHO " + room, "WHO %si*" % pfx, "WHOIS %si0" % pfx, "WHOIS %si*" % pfx, "NAMES", "NAMES " + room,
                   "LIST", "LUSERS", "ISON %si0 %si1 %sw0" % (pfx, pfx, pfx), "USERHOST %si0 %si2" % (pfx, pfx),
                   "WHOWAS %sw0x" % pfx, "MODE " + room, "TOPIC " + room, "MODE %s b" % room, "WHO %si0" % pfx,
                   "WHOIS %si0,%si1,%si2" % (pfx, pfx, pfx), "STATS u", "TIME", "MOTD"]
        fails = []
        done = {"r": 0, "w": 0}

        def reader(k, c):
            try:
                for rnd in range(rounds):
                    qs = [queries[(k * 7 + rnd + j) % len(queries)] for j in range(12)]
                    c.send_raw(("\r\n".join(qs) + "\r\nPING rd%d\r\n" % rnd).encode())
                    c.read_until(lambda m: m.verb == "PONG" and m.params[-1:] == ["rd%d" % rnd], 25.0)
                    done["r"] += 12
            except (wire.Closed, wire.Timeout, OSError) as ex:
                fails.append(("reader %d" % k, qs, repr(ex)))

        def writer(k, c):
            me = "%sw%d" % (pfx, k)
            try:
                for rnd in range(rounds):
                    kind = (k + rnd) % 4
                    if kind == 0:
                        ws = ["AWAY :gone %d" % rnd, "AWAY"] * 6
                    elif kind == 1:
                        ws = ["MODE %s +i" % me, "MODE %s -i" % me, "MODE %s +w" % me, "MODE %s -w" % me] * 3
                    elif kind == 2:
                        ws = ["JOIN " + room, "TOPIC %s :t%d" % (room, rnd), "PART " + room] * 4
                    else:
                        ws = ["NICK %sx" % me, "NICK " + me] * 5
                    c.send_raw(("\r\n".join(ws) + "\r\nPING wr%d\r\n" % rnd).encode())
                    c.read_until(lambda m: m.verb == "PONG" and m.params[-1:] == ["wr%d" % rnd], 25.0)
                    done["w"] += len(ws)
            except (wire.Closed, wire.Timeout, OSError) as ex:
                fails.append(("writer %d" % k, ws, repr(ex)))
        ths = [threading.Thread(target=reader, args=(k, c), daemon=True) for k, c in enumerate(readers)]
        ths += [threading.Thread(target=writer, args=(k, c), daemon=True) for k, c in enumerate(writers)]
        for t in ths:
            t.start()
        for t in ths:
            t.join(rounds * 26.0 + 10)
        self.events += done["r"] + done["w"]
        self.classes.add(("readers-writers", idle, not fails))
        if fails:
            state = sut.diagnose(srv)
            who, burst, ex = fails[0]
            if state in ("hung", "dead"):
                self.bad("storm:server-hung" if state == "hung" else "storm:server-stopped",
                         "queries against concurrent writers: %s got no answer to a burst (%s ...; %s) and the server answers "
                         "nobody any more (%d queries and %d changes had been answered before)"
                         % (who, burst[:3], ex, done["r"], done["w"]))
            elif state == "responsive":
                self.bad("storm:connection-stalled", "queries against concurrent writers: %s got no answer to a burst (%s ...; "
                         "%s) while a fresh connection is served" % (who, burst[:3], ex))
            else:
                raise wire.Timeout("readers/writers: %s %s" % (who, ex))
            for c in pop + readers + writers:
                c.close()
            return
        for c in pop + readers + writers:
            c.close()
        self.quiesce(srv, expect_users=[], expect_conns=0, what="readers-writers teardown")

    # ---------------------------------------------------------------- W10 a backlogged receiver still gets answers
    def w_backlog(self, srv, k, n):
        """k senders pipeline n messages each to one receiver that reads nothing (some 10 MB pile up in the kernel buffers
        and in its queue inside the server); then the receiver sends a PING and starts reading: its PONG must come long
        before the end of the backlog (a connection's own commands are served while messages for it are waiting), every
        message arrives once, per sender in order"""
        import threading
        self.rounds += 1
        pfx = self.uid("b")
        snd = open_many(srv, k, pfx + "s", password=self.password)
        vic = wire.Client(srv.port, name="vic", timeout=60.0, rcvbuf=4096)
        vic.keep_transcript = False
        if self.password:
            vic.send("PASS " + self.password)
        vnick = pfx + "v"
        vic.send("NICK " + vnick)
        vic.send("USER v 0 * :backlogged")
        vic.read_until(lambda m: m.verb == "221")
        pad = "z" * 200
        ths = []
        for i, c in enumerate(snd):
            burst = b"".join(("PRIVMSG %s :bl %d %d %s\r\n" % (vnick, i, j, pad)).encode() for j in range(n))
            burst += b"PING end\r\n"
            c.sock.settimeout(120.0)
            t = threading.Thread(target=lambda c=c, burst=burst: c.send_raw(burst), daemon=True)
            t.start()
            ths.append(t)
        for t in ths:
            t.join(120.0)
        try:
            for c in snd:
                c.read_until(lambda m: m.verb == "PONG" and m.params[-1:] == ["end"], 120.0)
        except (wire.Closed, wire.Timeout) as ex:
            self.bad("storm:backlog-sender", "a sender got no answer while its receiver was backlogged (%s)" % type(ex).__name__)
        # everything is queued for the victim now; it asks something and starts reading
        vic.send("PING mine")
        snd[0].send("PRIVMSG %s :FLUSH" % vnick)
        try:
            lines = vic.read_until(lambda m: m.verb == "PRIVMSG" and m.params[-1:] == ["FLUSH"], 180.0)
        except (wire.Closed, wire.Timeout) as ex:
            lines = getattr(ex, "lines", [])
            self.bad("storm:backlog-lost", "the backlogged receiver's stream ended early (%d lines, %s)"
                     % (len(lines), type(ex).__name__))
            lines = None
        if lines is not None:
            self.events += len(lines)
            pos = next((i for i, m in enumerate(lines) if m.verb == "PONG" and m.params[-1:] == ["mine"]), None)
            msgs = [m for m in lines if m.verb == "PRIVMSG" and m.params[-1].startswith("bl ")]
            per = {}
            for m in msgs:
                _, i, j = m.params[-1].split()[:3]
                per.setdefault(int(i), []).append(int(j))
            if any(per.get(i) != list(range(n)) for i in range(k)):
                self.bad("storm:backlog-copies", "backlog of %d x %d messages: per sender received %s, in order %s"
                         % (k, n, {i: len(v) for i, v in per.items()}, {i: v == sorted(v) for i, v in per.items()}))
            total = len(msgs)
            if pos is None:
                # the PONG may only come after the flush marker if the server serves the queue first, always
                self.bad("storm:backlog-starved", "the receiver's own PING was not answered before the last of %d queued "
                         "messages had been written" % total)
            else:
                after = sum(1 for m in lines[pos:] if m.verb == "PRIVMSG")
                self.classes.add(("backlog", k, n, "pong-before-%d%%" % (10 * int(10.0 * (total - after) / max(total, 1)) + 10)))
                if total >= 20000 and after < total * 0.03:
                    self.bad("storm:backlog-starved", "the receiver's own PING was answered only after %d of %d queued "
                             "messages (%.1f %%) had been written to it: its commands are not served while messages "
                             "for it are waiting" % (total - after, total, 100.0 * (total - after) / total))
        for c in snd + [vic]:
            c.close()
        self.quiesce(srv, expect_users=[], expect_conns=0, what="backlog teardown")

    # ---------------------------------------------------------------- W9 members leaving in the middle of a flood
    def w_quit_flood(self, srv, n):
        """one sender pipelines n numbered messages to a channel; some members leave meanwhile (QUIT, close, PART,
        being kicked): every member that stays gets every message exactly once and in order - a copy that cannot be
        delivered to somebody who is just leaving must not cost the others theirs"""
        import threading
        self.rounds += 1
        pfx = self.uid("g")
        snd = open_many(srv, 1, pfx + "s", password=self.password)[0]
        stay = open_many(srv, 5, pfx + "t", password=self.password)
        leave = open_many(srv, 4, pfx + "l", password=self.password)
        chan = "#" + self.uid("qf")
        snd.send("JOIN " + chan)
        snd.ping("j")
        # stayers and leavers join interleaved: the member map mixes them
        for a, b in zip(stay, leave + [None]):
            for c in (a, b):
                if c is not None:
                    c.send("JOIN " + chan)
                    c.ping("j")
        for c in [snd] + stay + leave:
            c.ping("j2")
            c.read_available(0.0)
        pad = "y" * 120
        burst = b"".join(("PRIVMSG %s :qf %d %s\r\n" % (chan, j, pad)).encode() for j in range(n))
        burst += ("PRIVMSG %s :FLUSH\r\nPING end\r\n" % chan).encode()
        got = {}

        def drain(i, c):
            try:
                got[i] = c.read_until(lambda m: m.verb == "PRIVMSG" and m.params[-1:] == ["FLUSH"], 60.0)
            except (wire.Closed, wire.Timeout) as ex:
                got[i] = getattr(ex, "lines", []) + [None]
        ths = [threading.Thread(target=drain, args=(i, c)) for i, c in enumerate(stay)]
        for t in ths:
            t.start()
        snd.sock.settimeout(60.0)
        st = threading.Thread(target=lambda: snd.send_raw(burst))
        st.start()
        hows = ["QUIT", "close", "PART", "QUIT"]
        self.r.shuffle(hows)
        for c, how in zip(leave, hows):
            time.sleep(self.r.choice([0.0, 0.002, 0.01, 0.03]))
            try:
                if how == "QUIT":
                    c.send("QUIT :leaving in the flood")
                elif how == "PART":
                    c.send("PART " + chan)
                else:
                    c.close()
            except (OSError, wire.Closed):
                pass
        st.join(60.0)
        try:
            snd.read_until(lambda m: m.verb == "PONG" and m.params[-1:] == ["end"], 60.0)
        except (wire.Closed, wire.Timeout) as ex:
            self.bad("storm:quitflood-sender", "sender lost during the flood (%s)" % type(ex).__name__)
        for t in ths:
            t.join(70.0)
        src = "%ss0" % pfx
        want = list(range(n))
        # the member that PARTed in the flood (and read nothing meanwhile): what it was sent before leaving is a gapless
        # prefix of the flood, and once it has read its own PART nothing more comes from the channel
        for li, (c, how) in enumerate(zip(leave, hows)):
            if how != "PART":
                continue
            me = "%sl%d" % (pfx, li)
            try:
                c.send("PRIVMSG %s :LEFT" % me)
                lines = c.read_until(lambda m: m.verb == "PRIVMSG" and m.params[-1:] == ["LEFT"], 30.0)
            except (wire.Closed, wire.Timeout, OSError) as ex:
                self.bad("storm:quitflood-parted-lost", "the member that PARTed during the flood lost its connection (%s)"
                         % type(ex).__name__)
                continue
            self.events += len(lines)
            idx = [k for k, m in enumerate(lines) if m.verb == "PART" and (m.source or "").split("!")[0] == me]
            seq = [int(m.params[-1].split()[1]) for m in lines if m.verb == "PRIVMSG" and m.params[-1].startswith("qf ")]
            if len(idx) != 1:
                self.bad("storm:quitflood-part-echo", "%s sent PART once and read %d confirmations" % (me, len(idx)))
                continue
            after = [m for m in lines[idx[0] + 1:] if m.verb == "PRIVMSG" and m.params[:1] == [chan]]
            if after:
                self.bad("storm:quitflood-after-part", "%s read its own PART of %s and then %d more channel messages (first: %s): "
                         "no order of the commands has a former member receive them" % (me, chan, len(after), after[0].raw[:80]))
            elif seq != list(range(len(seq))):
                self.bad("storm:quitflood-part-prefix", "%s got %d messages before its PART took effect, not the first %d in "
                         "order (%s...)" % (me, len(seq), len(seq), seq[:8]))
            self.classes.add(("quitflood-parted", len(seq) == 0, len(seq) == n))
        for i in range(len(stay)):
            lines = got.get(i, [None])
            if lines and lines[-1] is None:
                self.bad("storm:quitflood-lost", "a member that stayed: stream ended before the flush marker (%d lines)"
                         % (len(lines) - 1))
                lines = lines[:-1]
            seq = [int(m.params[-1].split()[1]) for m in lines
                   if m is not None and m.verb == "PRIVMSG" and m.params[-1].startswith("qf ")
                   and (m.source or "").split("!")[0] == src]
            self.events += len(lines)
            if seq != want:
                missing = sorted(set(want) - set(seq))
                self.bad("storm:quitflood-copies", "a member that stayed on the channel got %d of %d messages while others "
                         "were leaving (missing %s%s, duplicated %s, in order: %s)"
                         % (len(seq), n, missing[:8], "..." if len(missing) > 8 else "",
                            [x for x in set(seq) if seq.count(x) > 1][:5], seq == sorted(seq)))
        self.classes.add(("quitflood", n, tuple(sorted(hows))))
        for c in [snd] + stay + leave:
            c.close()
        self.quiesce(srv, expect_users=[], expect_conns=0, what="quit-flood teardown")

    # ---------------------------------------------------------------- W8 a reader that stops reading
    def w_stall(self, srv, ncmd):
        """one connection with a tiny receive buffer pipelines commands with very long replies and reads nothing: its
        own handler may wait for the socket, everybody else must still be served ("keeps answering every live
        connection"); afterwards it reads everything: the replies come complete and in command order"""
        import threading
        self.rounds += 1
        pfx = self.uid("q")
        a, b = open_many(srv, 2, pfx + "a", password=self.password)
        slow = wire.Client(srv.port, name="slow", timeout=30.0, rcvbuf=4096)
        slow.keep_transcript = False
        if self.password:
            slow.send("PASS " + self.password)
        slow.send("NICK %ss" % pfx)
        slow.send("USER %ss 0 * :slow" % pfx)
        slow.read_until(lambda m: m.verb == "221")
        big = "#" + self.uid("bg")
        for c in (a, b, slow):
            c.send("JOIN " + big)
            c.ping("j")
        for c in (a, b, slow):
            c.ping("j2")
            c.read_available(0.0)
        per = (1900 - 40) // (len(big) + 1)
        kind = self.r.choice(["NAMES", "LIST"])
        burst = b""
        for j in range(ncmd):
            burst += ("%s %s,#none%d\r\n" % (kind, ",".join([big] * per), j)).encode()
        burst += b"PING end\r\n"
        slow.sock.settimeout(120.0)
        th = threading.Thread(target=lambda: slow.send_raw(burst), daemon=True)
        th.start()
        time.sleep(0.3)
        an, bn = "%sa0" % pfx, "%sa1" % pfx
        backlogged = None
        T = 12.0
        stalled = None
        t0 = time.monotonic()
        try:
            for rnd in range(4):
                ch = "#%sp%d" % (pfx, rnd)
                a.send("JOIN " + ch)
                a.read_until(lambda m: m.verb == "366" and ch in m.params, T)
                b.send("PRIVMSG %s :stall probe %d" % (an, rnd))
                a.read_until(lambda m: m.verb == "PRIVMSG" and m.params[-1:] == ["stall probe %d" % rnd], T)
                a.send("TOPIC %s :t%d" % (ch, rnd))
                a.read_until(lambda m: m.verb == "TOPIC", T)
                n = wire.Client(srv.port, name="new", timeout=T)
                n.keep_transcript = False
                if self.password:
                    n.send("PASS " + self.password)
                n.send("NICK %sn%d" % (pfx, rnd))
                n.send("USER n 0 * :n")
                n.read_until(lambda m: m.verb == "221", T)
                n.close()
                self.events += 4
        except wire.Timeout as ex:
            stalled = "round %d: no answer within %.0f s while a non-reading connection had %d %s commands with %d-name " \
                      "lists outstanding" % (rnd, T, ncmd, kind, per)
        except wire.Closed:
            stalled = "round %d: a bystander was disconnected while a non-reading connection was being answered" % rnd
        worst = time.monotonic() - t0
        if self.hooks and not stalled:
            # the server's own per-command counters: the slow connection's handler is stuck behind its socket when
            # fewer commands have been dispatched than were sent
            done = srv.snap()["command_counts"].get(kind, 0)
            backlogged = done < ncmd
        if stalled:
            self.bad("storm:stalled-by-slow-reader", stalled)
        elif self.r.random() < 0.4:
            # now and then the slow one stays away for a good while longer (7 s in all): what it is owed waits for it
            time.sleep(max(0.0, 7.0 - (time.monotonic() - t0)))
            self.classes.add(("stall-long", kind))
        # now the slow one reads: every command's reply, in command order (the last 366/323 of command j names #none<j>
        # only in NAMES; LIST ends with 323)
        try:
            lines = slow.read_until(lambda m: m.verb == "PONG" and m.params[-1:] == ["end"], 120.0)
        except (wire.Closed, wire.Timeout) as ex:
            lines = getattr(ex, "lines", [])
            if not stalled:
                self.bad("storm:slow-reader-lost", "the slow reader's stream ended before its last reply (%d lines, %s)"
                         % (len(lines), type(ex).__name__))
            lines = None
        th.join(5.0)
        if lines is not None:
            self.events += len(lines)
            if kind == "NAMES":
                ends = [m.params[1] for m in lines if m.verb == "366" and len(m.params) > 1]
                seq = [int(x[5:]) for x in ends if x.startswith("#none")]
                n353 = sum(1 for m in lines if m.verb == "353")
                if seq != list(range(ncmd)) or len(ends) != ncmd * (per + 1) or n353 != ncmd * per:
                    self.bad("storm:slow-reader-replies", "NAMES x%d with %d names each: %d 353, %d 366 (expected %d, %d), "
                             "command order kept: %s" % (ncmd, per, n353, len(ends), ncmd * per, ncmd * (per + 1),
                                                         seq == list(range(ncmd))))
            else:
                n322 = sum(1 for m in lines if m.verb == "322")
                n323 = sum(1 for m in lines if m.verb == "323")
                if n323 != ncmd or n322 != ncmd * per:
                    self.bad("storm:slow-reader-replies", "LIST x%d with %d names each: %d 322, %d 323 (expected %d, %d)"
                             % (ncmd, per, n322, n323, ncmd * per, ncmd))
        self.classes.add(("stall", kind, {None: "unknown", True: "handler-waiting-for-socket", False: "no-backlog"}[backlogged]))
        self.extra_stall = max(getattr(self, "extra_stall", 0.0), worst)
        for c in (a, b, slow):
            c.close()
        self.quiesce(srv, expect_users=[], expect_conns=0, what="stall teardown")

    # ---------------------------------------------------------------- W5 churn
    def w_churn(self, srv, k, n):
        self.rounds += 1
        pfx = self.uid("z")
        cs = open_many(srv, k, pfx, password=self.password)
        chans = ["#" + self.uid("c") for _ in range(3)]
        nicks = ["%s%d" % (pfx, i) for i in range(k)]
        r = self.r
        bursts = []
        tn = [0]
        for i in range(k):
            b = b""
            for _ in range(n):
                ch = r.choice(chans)
                t = r.choice(nicks)
                tn[0] += 1
                line = r.choice([
                    "JOIN " + ch, "PART " + ch, "PRIVMSG %s :cx %d %d" % (ch, i, tn[0]), "PRIVMSG %s :cx %d %d" % (t, i, tn[0]),
                    "MODE %s +o %s" % (ch, t),
                    "MODE %s -o %s" % (ch, t), "MODE %s +v %s" % (ch, t), "KICK %s %s" % (ch, t), "TOPIC %s :t" % ch,
                    "MODE %s +l 3" % ch, "MODE %s -l" % ch, "INVITE %s %s" % (t, ch), "NAMES " + ch, "WHO " + ch,
                    "MODE %s +i" % nicks[i], "MODE %s -i" % nicks[i], "MODE %s +w" % nicks[i], "AWAY :a", "AWAY",
                    "WHOIS " + t, "LIST", "MODE %s +b %s!*@*" % (ch, t), "MODE %s -b %s!*@*" % (ch, t),
                    "NICK %sn%d" % (nicks[i], r.randrange(3)), "NICK " + nicks[i], "LUSERS", "MODE %s +s" % ch,
                ])
                b += line.encode() + b"\r\n"
            b += b"PING churn\r\n"
            bursts.append(b)
        fire(cs, bursts)
        for i, c in enumerate(cs):
            try:
                lines = c.read_until(lambda m: m.verb == "PONG" and m.params[-1:] == ["churn"], 15.0)
                self.events += len(lines)
                self.attributable(lines, nicks, i)
            except wire.Closed as ex:
                self.bad("storm:churn-closed", "connection %d closed during churn (%s): %s" % (i, ex.kind, [m.raw for m in ex.lines][-2:]))
            except wire.Timeout:
                self.bad("storm:churn-stalled", "connection %d did not answer within 15 s after the churn burst" % i)
        self.classes.add(("churn", k, n))
        self.quiesce(srv, expect_conns=k, what="churn")
        for c in cs:
            try:
                c.ping("alive", 5.0)
            except (wire.Closed, wire.Timeout) as ex:
                self.bad("storm:churn-not-alive", "a connection does not answer after the churn (%s)" % type(ex).__name__)
        for c in cs:
            c.close()
        self.quiesce(srv, expect_users=[], expect_conns=0, what="churn teardown")


def _attributable(self, lines, nicks, receiver):
    """every delivered copy is traceable to one send, with a prefix its sender held at some time"""
    seen = set()
    for m in lines:
        if m.verb == "PRIVMSG" and m.params[-1].startswith("cx "):
            _, si, sn = m.params[-1].split()
            src = (m.source or "").split("!")[0]
            base = nicks[int(si)]
            if not (src == base or (src.startswith(base + "n") and src[len(base) + 1:].isdigit())):
                self.bad("storm:churn-misattributed", "receiver %d got %r with prefix %s (sender %d is %s)"
                         % (receiver, m.params[-1], m.source, int(si), base))
            key = (m.params[0], sn)
            if key in seen:
                self.bad("storm:churn-duplicate", "receiver %d got %r twice for target %s" % (receiver, m.params[-1], m.params[0]))
            seen.add(key)


Storm.attributable = _attributable


def worker(args):
    only = None
    if len(args) == 9:
        only = args[8]
        args = args[:8]
    binary, hooks, seed, jitter, threads, password, rounds, quick = args
    st = Storm(binary, hooks, seed, jitter, threads, password)
    out = dict(findings=[], rounds=0, events=0, classes=[], winners=0, orders=0, inconclusive=None, samples=[])
    try:
        with st.server() as srv:
            r = st.r
            kind = None
            try:
                for _ in range(rounds):
                    kind = r.choice(["claim", "claim", "claim", "rename", "firstjoin", "order", "limit", "fifo", "churn",
                                     "flood", "stall", "quitflood", "settings", "mutual"] if only is None else only)
                    if kind == "claim":
                        st.w_claim(srv, r.choice([4, 8, 16]), r.choice(["nick-then-user", "user-then-nick", "one-segment"]))
                    elif kind == "rename":
                        st.w_rename(srv, r.choice([4, 8, 12]))
                    elif kind == "firstjoin":
                        st.w_firstjoin(srv, r.choice([6, 12]))
                    elif kind == "order":
                        st.w_firstjoin_order(srv, r.choice([6, 10]))
                    elif kind == "limit":
                        st.w_limit(srv, r.choice([6, 10]), r.choice([1, 2, 3, 5]))
                    elif kind == "fifo":
                        st.w_order_full(srv, r.choice([3, 5, 12]), r.choice([30, 120]) if quick else r.choice([80, 400]))
                    elif kind == "settings":
                        st.w_settings(srv, r.choice([4, 8, 12]), r.choice(["topic", "topic", "limit", "key"]))
                    elif kind == "mutual":
                        st.w_mutual(srv, r.choice([1, 3, 6]), r.choice(["kick", "kick", "deop"]))
                    elif kind == "readers":
                        st.w_readers_writers(srv, r.choice([12, 30, 40]), 40 if quick else 150)
                    elif kind == "idle":
                        st.w_idle(srv)
                    elif kind == "queries":
                        st.w_query_atomic(srv, 10, 2000)
                    elif kind == "backlog":
                        st.w_backlog(srv, 4, 12000)
                    elif kind == "quitflood":
                        st.w_quit_flood(srv, r.choice([600, 1500]) if quick else r.choice([1500, 4000]))
                    elif kind == "stall":
                        st.w_stall(srv, r.choice([300, 500]) if quick else r.choice([400, 800]))
                    elif kind == "flood":
                        st.w_flood(srv, r.choice([400, 1500]) if quick else r.choice([1500, 6000]))
                    else:
                        st.w_churn(srv, r.choice([6, 10]), 25 if quick else 60)
                    if len(st.findings) > 8 or not srv.alive():
                        break
            except (wire.Closed, wire.Timeout, OSError) as ex:
                # a harness time-out in the middle of a storm: is it the server?  ("keeps answering every live
                # connection")
                state = sut.diagnose(srv)
                if state == "dead":
                    st.bad("storm:server-stopped", "the server process ended during a %s round (%r)" % (kind, ex))
                elif state == "hung":
                    st.bad("storm:server-hung", "during a %s round the server stopped answering everybody: a fresh "
                           "connection waited 8 s for the answer to its PING (%r)" % (kind, ex))
                else:
                    raise
            hung = any(f[0] in ("storm:server-hung", "storm:server-stopped") for f in st.findings)
            out["windows_passed"] = srv.snap()["windows_passed"] if hooks and srv.alive() and not hung else 0
    except (wire.Closed, wire.Timeout, OSError, RuntimeError) as ex:
        out["inconclusive"] = "storm: %r" % (ex,)
    out.update(findings=st.findings, rounds=st.rounds, events=st.events, classes=[repr(c) for c in st.classes],
               winners=[repr(w) for w in st.winners], orders=len(st.orders),
               order_samples=[list(o) for o in list(st.orders)[:2]])
    return out
