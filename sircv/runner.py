"""Check runner: tiers, seeds, known findings, evidence files, exit codes."""
import hashlib
import importlib
import json
import os
import sys
import time
import traceback

from . import sut

VERIF = sut.VERIF
KNOWN = os.path.join(VERIF, "known_findings.json")


def subseed(seed, *parts):
    h = hashlib.sha256(("%d|" % seed + "|".join(str(p) for p in parts)).encode()).digest()
    return int.from_bytes(h[:6], "big")


class Finding:
    """one violation candidate produced by an engine"""

    def __init__(self, signature, detail, replay=None):
        self.signature = signature
        self.detail = detail
        self.replay = replay or {}


class Result:
    def __init__(self, prop, level="exploration"):
        self.prop = prop
        self.level = level
        self.evaluations = 0
        self.distinct = set()
        self.rule = ""
        self.samples = []
        self.extra = {}
        self.findings = []
        self.inconclusive = 0
        self.inconclusive_notes = []
        self.floors = []  # (name, measured, required)
        self.assumptions = []
        self.exhaustive = None
        self.regressions_probed = 0

    def floor(self, name, measured, required):
        self.floors.append((name, measured, required))

    def add_sample(self, s):
        if len(self.samples) < 8:
            self.samples.append(s)


class Ctx:
    def __init__(self, prop, tier, seed):
        self.prop = prop
        self.tier = tier
        self.seed = seed
        self.quick = tier == "quick"
        self._bin = {}
        self.t0 = time.time()

    def binary(self, features=("verif",), release=False):
        k = (tuple(features), release)
        if k not in self._bin:
            self._bin[k] = sut.build(features=features, release=release)
        return self._bin[k]

    def seeds(self, n, *tag):
        return [subseed(self.seed, self.prop, i, *tag) for i in range(n)]


def load_known(prop):
    if not os.path.exists(KNOWN):
        return []
    with open(KNOWN) as f:
        data = json.load(f)
    return [e for e in data.get("findings", []) if e.get("property") == prop]


def write_evidence(res, ctx, violations, known_hits):
    os.makedirs(os.path.join(VERIF, "evidence"), exist_ok=True)
    cov = {
        "evaluations": int(res.evaluations),
        "distinct_nontrivial": int(len(res.distinct)),
        "rule": res.rule,
        "samples": res.samples[:8] or ["(no sample recorded)"],
        "floors": [{"name": n, "measured": m, "required": r} for n, m, r in res.floors],
        "inconclusive_cases": res.inconclusive,
        "inconclusive_notes": res.inconclusive_notes[:5],
        "regression_probes_run": res.regressions_probed,
        "known_findings_reproduced": known_hits,
        "hooks_available": res.extra.pop("hooks_available", True),
    }
    if res.exhaustive is not None:
        cov["exhaustive"] = res.exhaustive
    cov.update(res.extra)
    ev = {
        "property_id": res.prop,
        "tier": ctx.tier,
        "seed": ctx.seed,
        "level": res.level,
        "coverage": cov,
        "assumptions": res.assumptions,
        "wall_s": round(time.time() - ctx.t0, 2),
        "violations": len(violations),
    }
    path = os.path.join(VERIF, "evidence", res.prop + ".json")
    tmp = path + ".tmp"
    with open(tmp, "w") as f:
        json.dump(ev, f, indent=1, default=str)
    os.replace(tmp, path)


def main(argv=None):
    argv = argv or sys.argv[1:]
    if not argv:
        print("usage: check <ID> [--tier quick|thorough] [--replay path]")
        return 2
    prop = argv[0].upper()
    tier = os.environ.get("VERIF_TIER", "quick")
    replay = None
    i = 1
    while i < len(argv):
        if argv[i] == "--tier":
            tier = argv[i + 1]
            i += 2
        elif argv[i] == "--replay":
            replay = argv[i + 1]
            i += 2
        else:
            i += 1
    try:
        seed = int(os.environ.get("VERIF_SEED", "1"))
    except ValueError:
        seed = 1
    ctx = Ctx(prop, tier, seed)
    mod = importlib.import_module("sircv.props." + prop.lower())
    if replay:
        return mod.replay(ctx, replay)
    try:
        res = mod.run(ctx)
    except sut.BuildError as ex:
        print("BUILD-FAILED (inconclusive, not a violation):\n" + str(ex)[-3000:])
        print("INCONCLUSIVE property=%s reason=build-failed" % prop)
        return 2
    except Exception:
        traceback.print_exc()
        print("INCONCLUSIVE property=%s reason=harness-error" % prop)
        return 2
    known = load_known(prop)
    open_sigs = {e["signature"]: e for e in known if e.get("status") == "open"}
    violations = []
    known_hits = []
    seen = set()
    for f in res.findings:
        if f.signature in open_sigs:
            if f.signature not in known_hits:
                known_hits.append(f.signature)
            continue
        if f.signature in seen:
            continue
        seen.add(f.signature)
        violations.append(f)
    for sig in known_hits:
        print("KNOWN-FINDING: property=%s %s" % (prop, open_sigs[sig].get("what", sig)))
    os.makedirs(os.path.join(VERIF, "replays", prop), exist_ok=True)
    for n, f in enumerate(violations[:20]):
        path = os.path.join(VERIF, "replays", prop, "%d-%d.json" % (seed, n))
        with open(path, "w") as fh:
            json.dump({"property": prop, "signature": f.signature, "detail": f.detail,
                       "tier": tier, "seed": seed, "replay": f.replay}, fh, indent=1, default=str)
        print("VIOLATION property=%s replay=%s" % (prop, path))
        print("  signature: %s" % f.signature)
        print("  detail: %s" % f.detail[:600])
    write_evidence(res, ctx, violations, known_hits)
    print("%s %s seed=%d: evaluations=%d distinct=%d inconclusive=%d violations=%d wall=%.1fs"
          % (prop, tier, seed, res.evaluations, len(res.distinct), res.inconclusive,
             len(violations), time.time() - ctx.t0))
    if violations:
        return 1
    short = [(n, m, r) for n, m, r in res.floors if m < r]
    if short:
        for n, m, r in short:
            print("INCONCLUSIVE property=%s floor %s: observed %s < required %s" % (prop, n, m, r))
        return 2
    limit = 12 if tier == "quick" else 60
    if res.inconclusive >= limit:
        # a handful of inconclusive units (a watchdog on a loaded machine) is expected noise; this many means the run
        # did not observe what it claims to have observed - never folded into "held"
        print("INCONCLUSIVE property=%s %d units of the run were inconclusive (limit %d): %s"
              % (prop, res.inconclusive, limit, "; ".join(res.inconclusive_notes[:3])[:400]))
        return 2
    return 0
