"""E6: start-up / configuration monitor for C20."""
import copy
import os
import random
import socket
import subprocess
import tempfile
import time
import tomllib

from . import sut, twin, wire

EXAMPLE = os.path.join(sut.REPO, "config-example.toml")
PW = {"server": "serverpw", "oper": "operpw", "user": "userpw"}


# ------------------------------------------------------------------ TOML writer for nested dicts
def dump_toml(d):
    out = []
    scalars = {k: v for k, v in d.items() if not isinstance(v, (dict, list)) or
               (isinstance(v, list) and (not v or not isinstance(v[0], dict)))}
    for k, v in scalars.items():
        out.append("%s = %s" % (k, tv(v)))
    for k, v in d.items():
        if isinstance(v, dict):
            out.append("[%s]" % k)
            for k2, v2 in v.items():
                out.append("%s = %s" % (k2, tv(v2)))
    for k, v in d.items():
        if isinstance(v, list) and v and isinstance(v[0], dict):
            for item in v:
                out.append("[[%s]]" % k)
                for k2, v2 in item.items():
                    if not isinstance(v2, dict):
                        out.append("%s = %s" % (k2, tv(v2)))
                for k2, v2 in item.items():
                    if isinstance(v2, dict):
                        out.append("[%s.%s]" % (k, k2))
                        for k3, v3 in v2.items():
                            out.append("%s = %s" % (k3, tv(v3)))
    return "\n".join(out) + "\n"


def tv(v):
    if isinstance(v, bool):
        return "true" if v else "false"
    if isinstance(v, int):
        return str(v)
    if isinstance(v, str):
        return sut.toml_str(v)
    if isinstance(v, list):
        return "[" + ", ".join(tv(x) for x in v) + "]"
    raise TypeError(v)


def leaves(d, path=()):
    for k, v in d.items():
        if isinstance(v, dict):
            yield from leaves(v, path + (k,))
        elif isinstance(v, list) and v and isinstance(v[0], dict):
            for i, item in enumerate(v):
                yield from leaves(item, path + (k, i))
        else:
            yield path + (k,), v


def get(d, path):
    for p in path:
        d = d[p]
    return d


def setp(d, path, v):
    for p in path[:-1]:
        d = d[p]
    d[path[-1]] = v


# ------------------------------------------------------------------ the documented configuration, made probe-able
def base_from_example(binary, port, logfile):
    """config-example.toml is the documentation: its key names are kept, values are chosen so that
    each setting's documented effect is observable by the probe"""
    with open(EXAMPLE, "rb") as f:
        ex = tomllib.load(f)
    cfg = copy.deepcopy(ex)
    H = {k: sut.password_hash(binary, v) for k, v in PW.items()}
    cfg["port"] = port
    cfg["listen"] = "127.0.0.1"
    cfg["dns_lookup"] = False
    cfg.pop("tls", None)
    cfg["log_file"] = logfile
    cfg["password"] = H["server"]
    cfg["max_connections"] = 50
    cfg["max_joins"] = 5
    cfg["ping_timeout"] = 100
    cfg["pong_timeout"] = 30
    for o in cfg.get("operators", []):
        o["password"] = H["oper"]
        if "mask" in o:
            o["mask"] = "*!*@127.0.0.1"
    for u in cfg.get("users", []):
        u["password"] = H["user"]
        if "mask" in u:
            u["mask"] = "*!*@127.0.0.1"
    for c in cfg.get("channels", []):
        m = c.get("modes", {})
        for k, v in list(m.items()):
            if isinstance(v, list) and v and "!" in str(v[0]):
                m[k] = ["probe*!*@*"]  # a mask list: make it concern the probe clients
            elif isinstance(v, list):
                m[k] = ["probe1"]  # a nick list
            elif isinstance(v, bool):
                m[k] = False
        if "invite_only" in m:
            m["invite_only"] = True
    return ex, cfg


def perturb(cfg, path, binary, rng):
    """another valid value for one documented key; returns new config or None if not applicable"""
    v = get(cfg, path)
    key = path[-1]
    new = copy.deepcopy(cfg)
    if key == "port":
        nv = sut.free_port()
    elif key == "listen":
        nv = "127.0.0.2"
    elif key == "password":
        nv = sut.password_hash(binary, "another-password")
    elif key == "name" and len(path) == 1:
        nv = "other.localhost"
    elif key == "log_level":
        nv = "ERROR"
    elif key == "log_file":
        nv = v + ".other"
    elif key in ("max_connections", "max_joins"):
        nv = 1
    elif key in ("ping_timeout", "pong_timeout"):
        return None  # second-scale effect: probed by C17, and by the timing probe below
    elif key == "dns_lookup":
        return None
    elif isinstance(v, bool):
        nv = not v
    elif isinstance(v, int):
        nv = v + 1
    elif isinstance(v, list):
        nv = ["nobody!*@*"] if (v and "!" in str(v[0])) else ["nobody"]
    elif isinstance(v, str) and key == "mask":
        nv = "*!*@10.*"
    elif isinstance(v, str) and key == "name" and path[0] == "channels":
        nv = "#othertopic"
    elif isinstance(v, str) and key in ("name", "nick"):
        nv = "somebodyelse"
    elif isinstance(v, str) and key == "key":
        nv = "otherkey"
    elif isinstance(v, str):
        nv = v + " (changed)"
    else:
        return None
    setp(new, path, nv)
    return new


# ------------------------------------------------------------------ the probe
def probe(binary, hooks, cfg, orig_port, logfile):
    """fixed client script; returns list of (label, normalised observation)"""
    obs = []
    text = dump_toml(cfg)
    srv = sut.Server(binary, hooks=hooks, config_text=text, start_timeout=6.0)
    srv.dir = None
    # bypass sut's port handling: we give the full text ourselves
    d = tempfile.mkdtemp(prefix="boot-", dir=os.path.join(sut.BUILD_ROOT, "run"))
    cfgp = os.path.join(d, "cfg.toml")
    with open(cfgp, "w") as f:
        f.write(text)
    env = sut.cov_env(dict(os.environ, RUST_BACKTRACE="0"))
    env.pop("RUST_LOG", None)
    p = subprocess.Popen([binary, "-c", cfgp], cwd=d, env=env, stdin=subprocess.DEVNULL,
                         stdout=subprocess.PIPE, stderr=subprocess.STDOUT)
    try:
        up = wait_port("127.0.0.1", orig_port, p, 5.0)
        obs.append(("listening-on-documented-address", up))
        if not up:
            obs.append(("exit", p.poll()))
            return obs
        clients = []

        def reg(nick, user, pw, caps=None):
            c = wire.Client(orig_port, name=nick, timeout=5.0)
            c.keep_transcript = False
            clients.append(c)
            try:
                burst = c.register(nick, user, password=pw, caps=caps, realname="Probe " + nick)
            except wire.Closed as ex:
                burst = ex.lines
            except wire.Timeout as ex:
                burst = getattr(ex, "lines", [])
            return c, burst

        def q(c, line, label):
            try:
                c.send(line)
                lines = c.ping("q")
            except (wire.Closed, wire.Timeout) as ex:
                lines = getattr(ex, "lines", [])
                obs.append((label + ":lost", type(ex).__name__))
            obs.append((label, twin.normalise([m for m in lines if m.verb not in ("391",)])))
            return lines

        c1, burst = reg("probe1", "probeu", PW["server"], caps=["multi-prefix"])
        keep = [m for m in burst if m.verb in ("001", "002", "004", "005", "251", "254", "372", "375", "221", "464", "433")
                or m.verb.startswith("ERROR")]
        obs.append(("welcome", twin.normalise(keep)))
        obs.append(("prefix", sorted({m.source for m in burst if m.is_numeric})))
        if not c1.eof and any(m.verb == "001" for m in burst):
            # documented semantics, asserted on the run itself (a changed value having *some* effect is not enough)
            obs.append(("assert:every-numeric-prefixed-with-name", {m.source for m in burst if m.is_numeric} == {cfg["name"]}))
            obs.append(("assert:001-names-the-network", any(m.verb == "001" and cfg["network"] in m.params[-1] for m in burst)))
            obs.append(("assert:372-carries-the-motd", any(m.verb == "372" and m.params[-1] == cfg["motd"] for m in burst)
                        or "\n" in cfg["motd"]))
            dm = cfg.get("default_user_modes", {})
            want = "+" + "".join(l for k, l in (("invisible", "i"), ("oper", "o"), ("local_oper", "O"), ("registered", "r"),
                                                ("wallops", "w")) if dm.get(k))
            obs.append(("assert:221-shows-default-user-modes", any(m.verb == "221" and m.params[1:2] == [want] for m in burst)))
            if cfg.get("password"):
                cw = wire.Client(orig_port, name="wrongpw", timeout=5.0)
                clients.append(cw)
                try:
                    lw = cw.register("probew", "probew", password="not-the-password")
                    refused = not any(m.verb == "001" for m in lw)
                except (wire.Closed, wire.Timeout) as ex:
                    refused = not any(m.verb == "001" for m in getattr(ex, "lines", []))
                obs.append(("assert:wrong-server-password-refused", refused))
        obs.append(("framing", list(c1.bad_frames)))
        if not c1.eof:
            for line in ("ADMIN", "LINKS", "VERSION", "MOTD", "WHOIS probe1"):
                q(c1, line, line)
            q(c1, "OPER matszpk " + PW["oper"], "OPER")
            q(c1, "MODE probe1", "umode-after-oper")
            q(c1, "JOIN #maintopic blabla", "join-preconfigured")
            q(c1, "NAMES #maintopic", "names-preconfigured")
            q(c1, "MODE #maintopic", "mode-preconfigured")
            # "predefined ... channels": a nickname named in several rank lists of the channel holds every one of them
            ch0m = ((cfg.get("channels") or [{}])[0]).get("modes", {})
            if (cfg.get("channels") or [{}])[0].get("name") == "#maintopic":
                c1.send("CAP REQ :multi-prefix")
                c1.send("CAP END")
                nl = q(c1, "NAMES #maintopic", "names-preconfigured-multi-prefix")
                mine = [w_ for m in nl if m.verb == "353" for w_ in m.params[-1].split() if w_.lstrip("~&@%+") == "probe1"]
                want = "".join(sym for key, sym in (("founders", "~"), ("protecteds", "&"), ("operators", "@"),
                                                    ("half_operators", "%"), ("voices", "+"))
                               if "probe1" in (ch0m.get(key) or []))
                if mine:
                    obs.append(("assert:every-configured-rank-held", mine[0][:len(mine[0]) - len("probe1")] == want))
                # ... and again after leaving and coming back (the configuration governs every join, not only the first)
                q(c1, "PART #maintopic", "part-preconfigured")
                q(c1, "JOIN #maintopic blabla", "rejoin-preconfigured")
                nl = q(c1, "NAMES #maintopic", "names-preconfigured-after-rejoin")
                mine = [w_ for m in nl if m.verb == "353" for w_ in m.params[-1].split() if w_.lstrip("~&@%+") == "probe1"]
                if mine:
                    obs.append(("assert:every-configured-rank-held-after-rejoin",
                                mine[0][:len(mine[0]) - len("probe1")] == want))
            q(c1, "MODE #maintopic +b", "banlist")
            q(c1, "MODE #maintopic +e", "exceptlist")
            q(c1, "MODE #maintopic +I", "invexlist")
            q(c1, "JOIN #q1", "join-1")
            q(c1, "JOIN #q2", "join-2")
            q(c1, "JOIN #q3,#q4,#q5,#q6,#q7", "join-list")
            wl = q(c1, "WHOIS probe1", "whois-after-joins")
            nch = sum(len(m.params[-1].split()) for m in wl if m.verb == "319")
            if isinstance(cfg.get("max_joins"), int):
                # "Maximal number of channels that user can join."
                obs.append(("assert:channels-joined<=max_joins", nch <= cfg["max_joins"]))
        # a configured ("registered") user
        c2, burst2 = reg("probe2", "matszpk", PW["user"])
        obs.append(("configured-user", twin.normalise([m for m in burst2 if m.verb in ("001", "221", "464")
                                                        or m.verb.startswith("ERROR")])))
        # a plain member and an outsider of the preconfigured channel
        c3, _ = reg("probe3", "plain", PW["server"])
        if not c3.eof:
            ch0 = (cfg.get("channels") or [{}])[0]
            if ch0.get("modes", {}).get("key") and ch0.get("name"):
                lk = q(c3, "JOIN %s not-the-key" % ch0["name"], "plain-join-wrong-key")
                obs.append(("assert:wrong-channel-key-refused", any(m.verb == "475" for m in lk)))
            q(c3, "JOIN #maintopic blabla", "plain-join")
            q(c3, "TOPIC #maintopic :changed by plain member", "plain-topic")
            q(c3, "PRIVMSG #maintopic :from plain member", "plain-speak")
        c4, _ = reg("probe4", "outsider", PW["server"])
        if not c4.eof:
            q(c4, "PRIVMSG #maintopic :from outside", "outside-speak")
            q(c4, "LIST", "list")
        # slots: how many more connections are served
        served = 0
        extra = []
        for i in range(3):
            try:
                c = wire.Client(orig_port, name="slot%d" % i, timeout=3.0)
                extra.append(c)
                c.send("PING s")
                c.read_until(lambda m: m.verb == "451", 3.0)
                served += 1
            except (wire.Closed, wire.Timeout, OSError):
                pass
        obs.append(("extra-connections-served", served))
        time.sleep(0.05)
        for lf in (logfile,):
            exists = os.path.exists(lf)
            content = open(lf, errors="replace").read() if exists else ""
            obs.append(("log-file-at-documented-path", exists))
            obs.append(("log-has-info-lines", " INFO " in content))
        for c in clients + extra:
            c.close()
        return obs
    finally:
        if p.poll() is None:
            p.kill()
        p.wait(timeout=10)
        p.stdout.close()
        import shutil
        shutil.rmtree(d, ignore_errors=True)


def wait_port(host, port, proc, timeout):
    deadline = time.monotonic() + timeout
    while time.monotonic() < deadline:
        if proc.poll() is not None:
            return False
        try:
            s = socket.create_connection((host, port), timeout=0.3)
            s.close()
            return True
        except OSError:
            time.sleep(0.02)
    return False


def key_effect_job(args):
    """retry wrapper: port collisions between parallel jobs / transient socket errors are not verdicts"""
    last = None
    for attempt in range(3):
        try:
            r = _key_effect_job(args)
            if r.get("status") == "skipped" or r.get("base_ok", True):
                return r
            last = r
        except (OSError, wire.Closed, wire.Timeout) as ex:
            last = dict(path=args[2], status="inconclusive", why=repr(ex))
        time.sleep(0.2 * (attempt + 1))
    return last


def _key_effect_job(args):
    """base vs perturbed probe for one documented key; returns finding or None"""
    binary, hooks, path, seed = args
    rng = random.Random(seed)
    port = sut.free_port()
    logfile = os.path.join(sut.BUILD_ROOT, "run", "boot-%d-%d.log" % (os.getpid(), port))
    try:
        ex, base = base_from_example(binary, port, logfile)
        try:
            get(base, path)
        except (KeyError, IndexError):
            return dict(path=path, status="skipped", why="not in probe-able base")
        pert = perturb(base, path, binary, rng)
        if pert is None:
            return dict(path=path, status="skipped", why="no perturbation defined (timing / dns)")
        o0 = probe(binary, hooks, base, port, logfile)
        for lf in (logfile, logfile + ".other"):
            if os.path.exists(lf):
                os.unlink(lf)
        o1 = probe(binary, hooks, pert, port, logfile)
        diffs = [a[0] for a, b in zip(o0, o1) if a != b] + (["length"] if len(o0) != len(o1) else [])
        base_ok = dict(o0).get("listening-on-documented-address") is True
        # assertions are judged on the base run only: in a perturbed run their premises may not hold any more
        broken = [a[0] for a in o0 if isinstance(a[0], str) and a[0].startswith("assert:") and a[1] is False]
        return dict(path=path, status="effect" if diffs else "no-effect", differs_in=diffs[:6], base_ok=base_ok,
                    broken_assertions=sorted(set(broken)),
                    old=repr(get(base, path))[:60], new=repr(get(pert, path))[:60],
                    framing=dict(o0).get("framing"))
    finally:
        for lf in (logfile, logfile + ".other"):
            if os.path.exists(lf):
                os.unlink(lf)


# ------------------------------------------------------------------ validation at start-up
def minimal_cfg(binary, port):
    H = sut.password_hash(binary, "pw")
    return {"name": "irc.valid.test", "admin_info": "a", "info": "i", "listen": "127.0.0.1", "port": port,
            "network": "Net", "ping_timeout": 120, "pong_timeout": 20, "motd": "m", "dns_lookup": False,
            "log_level": "WARN", "password": H,
            "default_user_modes": {"invisible": False, "oper": False, "local_oper": False, "registered": False,
                                   "wallops": False},
            "operators": [{"name": "opname", "password": H}],
            "users": [{"name": "uname", "nick": "unick", "password": H}],
            "channels": [{"name": "#chan", "modes": {"invite_only": False, "moderated": False, "secret": False,
                                                      "protected_topic": False, "no_external_messages": False}}]}


def validation_cases(binary):
    """(label, mutation function, expected 'serve' | 'exit', extra cli args)"""
    H = sut.password_hash(binary, "pw")
    cases = []

    def add(label, fn, exp, cli=()):
        cases.append((label, fn, exp, list(cli)))

    add("valid-full", lambda c: None, "serve")
    for k in ("password", "operators", "users", "channels"):
        add("valid-without-" + k, lambda c, k=k: c.pop(k), "serve")
    add("valid-with-optional", lambda c: c.update(admin_info2="x", admin_email="a@b", max_connections=10, max_joins=3),
        "serve")
    add("name-without-dot", lambda c: c.update(name="nodot"), "exit")
    add("name-with-dot-at-end", lambda c: c.update(name="host."), "serve")
    for label, bad in (("short", "abcd"), ("not-base64", "!!!not base64!!!" * 4), ("one-char-short", H[:-1]),
                       ("too-long", H + "AAAA"), ("empty", ""), ("blank-after", H + " "), ("blank-before", " " + H),
                       ("newline-after", H + "\n"), ("tab-before", "\t" + H), ("blank-inside", H[:20] + " " + H[20:]),
                       ("padded", H + "="), ("url-safe-alphabet", H.replace("+", "-").replace("/", "_")
                                             if ("+" in H or "/" in H) else H[:-2] + "-_")):
        add("server-password-hash-" + label, lambda c, b=bad: c.update(password=b), "exit")
        add("operator-password-hash-" + label, lambda c, b=bad: c["operators"][0].update(password=b), "exit")
        add("user-password-hash-" + label, lambda c, b=bad: c["users"][0].update(password=b), "exit")
    for label, bad in (("dot", "a.b"), ("colon", "a:b"), ("comma", "a,b"), ("hash", "#ab"), ("amp", "&ab"),
                       ("blank", "a b"), ("tab", "a\tb"), ("newline", "a\nb"), ("cr", "a\rb"), ("blank-at-end", "ab "),
                       ("tab-at-start", "\tab"), ("empty", "")):
        add("user-name-" + label, lambda c, b=bad: c["users"][0].update(name=b), "exit")
        add("user-nick-" + label, lambda c, b=bad: c["users"][0].update(nick=b), "exit")
        add("operator-name-" + label, lambda c, b=bad: c["operators"][0].update(name=b), "exit")
    for label, bad in (("no-prefix", "chan"), ("comma", "#a,b"), ("colon", "#a:b"), ("empty", "")):
        add("channel-name-" + label, lambda c, b=bad: c["channels"][0].update(name=b), "exit")
    add("channel-name-local", lambda c: c["channels"][0].update(name="&local"), "serve")
    cert = os.path.join(sut.REPO, "test_data", "cert.crt")
    key = os.path.join(sut.REPO, "test_data", "cert_key.crt")
    add("tls-cert-only-in-file", lambda c: c.update(tls={"cert_file": cert}), "exit")
    add("tls-key-only-in-file", lambda c: c.update(tls={"cert_key_file": key}), "exit")
    # the configuration that counts is the effective one: file merged with the command line
    add("cli-name-without-dot", lambda c: None, "exit", ["-n", "nodot"])
    add("cli-name-repairs-file", lambda c: c.update(name="nodot"), "serve", ["-n", "cli.valid.test"])
    add("cli-name-valid", lambda c: None, "serve", ["-n", "cli.valid.test"])
    add("cli-network-override", lambda c: None, "serve", ["-N", "OtherNet"])
    add("tls-cert-only-cli", lambda c: None, "exit", ["-C", cert])
    add("tls-key-only-cli", lambda c: None, "exit", ["-K", key])
    for k in ("name", "admin_info", "info", "listen", "port", "network", "ping_timeout", "pong_timeout", "motd",
              "dns_lookup", "log_level", "default_user_modes"):
        add("missing-required-" + k, lambda c, k=k: c.pop(k), "exit")
    add("wrong-type-port", lambda c: c.update(port="six"), "exit")
    add("bad-log-level", lambda c: c.update(log_level="LOUD"), "exit")
    add("bad-listen", lambda c: c.update(listen="not-an-address"), "exit")
    return cases


def run_validation_case(args):
    binary, idx = args
    cases = validation_cases(binary)
    label, fn, exp, cli = cases[idx]
    port = sut.free_port()
    cfg = minimal_cfg(binary, port)
    fn(cfg)
    d = tempfile.mkdtemp(prefix="val-", dir=os.path.join(sut.BUILD_ROOT, "run"))
    cfgp = os.path.join(d, "c.toml")
    with open(cfgp, "w") as f:
        f.write(dump_toml(cfg))
    env = sut.cov_env(dict(os.environ, RUST_BACKTRACE="0"))
    p = subprocess.Popen([binary, "-c", cfgp] + cli, cwd=d, env=env, stdin=subprocess.DEVNULL,
                         stdout=subprocess.PIPE, stderr=subprocess.STDOUT)
    try:
        up = wait_port("127.0.0.1", port, p, 10.0 if exp == "serve" else 1.5)
        rc = p.poll()
        served = False
        if up and rc is None:  # our process is alive (somebody else's server may own a reused port otherwise)
            try:
                c = wire.Client(port, timeout=3.0)
                c.send("PING x")
                c.read_until(lambda m: m.verb == "451", 3.0)
                served = p.poll() is None
                c.close()
            except (wire.Closed, wire.Timeout, OSError):
                pass
        if exp == "exit" and rc is None:
            # give a slow start-up failure a moment before calling it "kept running"
            try:
                rc = p.wait(timeout=3.0)
            except subprocess.TimeoutExpired:
                rc = None
        out = ""
        if rc is not None:
            out = p.stdout.read().decode("utf-8", "replace")[-300:]
        return dict(label=label, expected=exp, served=served, exit=rc, output=out)
    finally:
        if p.poll() is None:
            p.kill()
        p.wait(timeout=10)
        p.stdout.close()
        import shutil
        shutil.rmtree(d, ignore_errors=True)


# ------------------------------------------------------------------ -g hash accepted exactly for its password
def hash_wire(binary, hooks, seed, n):
    rng = random.Random(seed)
    atoms = ["a", "B", "7", "é", "日本", "$", "'", "\"", "\\", "pass", "Pass", "ß", "x y", "#", ":", "-g"]
    res = []
    for i in range(n):
        pw = "".join(rng.choice(atoms) for _ in range(rng.randrange(1, 6)))
        if pw.startswith("-"):
            pw = "p" + pw
        if i % 3 == 2:
            # long passwords: every character counts, also the 65th and later ones
            pw = (pw * 40)[:rng.choice([64, 65, 72, 100, 130])]
        if i % 3 == 1:
            # "for every password string": blanks at the end belong to the password
            pw += rng.choice([" ", "  ", "\t", " \t", " x "])
        p = subprocess.run([binary, "-g", "-P", pw], capture_output=True, text=True, timeout=30,
                           env=sut.cov_env(dict(os.environ)))
        if "Password Hash: " not in p.stdout:
            res.append(dict(pw=pw, problem="-g printed no hash: %r %r" % (p.stdout, p.stderr[-200:])))
            continue
        h = p.stdout.split("Password Hash: ")[1].strip()
        others = [pw + "x", pw[:-1] or "q", pw.swapcase() if pw.swapcase() != pw else pw + " ", " " + pw,
                  pw.rstrip() or "q", pw + " ", pw.strip() or "q"]
        if len(pw) > 10:
            others += [pw[:-3] + "zzz", pw[:64] or "q", pw[:64] + "tail", pw[:len(pw) // 2]]
        others = [x for k, x in enumerate(others) if x not in others[:k]]
        with sut.Server(binary, dict(password=h, operators=[{"name": "root", "password": h}]), hooks=hooks) as srv:
            def attempt(x):
                c = wire.Client(srv.port, timeout=5.0)
                c.send("PASS :" + x)
                c.send("NICK hw")
                c.send("USER hw 0 * :r")
                try:
                    lines = c.read_until(lambda m: m.verb in ("001", "464"), 5.0)
                    ok = lines[-1].verb == "001"
                except (wire.Closed, wire.Timeout):
                    ok = False
                operok = None
                if ok:
                    c.send("OPER root :" + x)
                    ls = c.ping("o")
                    operok = any(m.verb == "381" for m in ls)
                c.close()
                time.sleep(0.01)
                return ok, operok
            good = attempt(pw)
            bad = [(x, attempt(x)) for x in others if x != pw]
        res.append(dict(pw=pw, good=good, bad=bad))
    return res


# ------------------------------------------------------------------ command line overrides
def cli_overrides(binary, hooks):
    out = []
    port0 = sut.free_port()
    port1 = sut.free_port()
    d = tempfile.mkdtemp(prefix="cli-", dir=os.path.join(sut.BUILD_ROOT, "run"))
    cfg = minimal_cfg(binary, port0)
    cfg.pop("password")
    # the file sets every value the command line then overrides - the log file too
    filelog = os.path.join(d, "file.log")
    cfg["log_file"] = filelog
    cfgp = os.path.join(d, "c.toml")
    with open(cfgp, "w") as f:
        f.write(dump_toml(cfg))
    logf = os.path.join(d, "cli.log")
    env = sut.cov_env(dict(os.environ, RUST_BACKTRACE="0"))
    p = subprocess.Popen([binary, "-c", cfgp, "-n", "cli.name.test", "-N", "CliNet", "-p", str(port1), "-l", "127.0.0.1",
                          "-L", logf], cwd=d, env=env, stdin=subprocess.DEVNULL, stdout=subprocess.PIPE,
                         stderr=subprocess.STDOUT)
    try:
        up1 = wait_port("127.0.0.1", port1, p, 5.0)
        out.append(("-p overrides port", up1))
        try:
            s = socket.create_connection(("127.0.0.1", port0), timeout=0.3)
            s.close()
            out.append(("file port not used", False))
        except OSError:
            out.append(("file port not used", True))
        if up1:
            c = wire.Client(port1, timeout=5.0)
            burst = c.register("cli", "cli")
            out.append(("-n overrides name", all(m.source == "cli.name.test" for m in burst if m.is_numeric)))
            out.append(("-N overrides network", any(m.verb == "001" and "CliNet" in m.params[-1] for m in burst)))
            c.close()
            time.sleep(0.05)
        out.append(("-L overrides log file", os.path.exists(logf)))
        out.append(("-L overrides log file: the file's log_file is not used", not os.path.exists(filelog)))
    finally:
        if p.poll() is None:
            p.kill()
        p.wait(timeout=10)
        p.stdout.close()
        import shutil
        shutil.rmtree(d, ignore_errors=True)
    return out


# ------------------------------------------------------------------ MOTD / welcome burst framing
def motd_cases(binary, hooks):
    out = []
    for label, motd in (("single", "Hello there"), ("two-lines", "line one\nline two"),
                        ("crlf", "first\r\nsecond"), ("trailing-newline", "only line\n"),
                        ("unicode", "héllo 日本"), ("colon-start", ":starts with colon"), ("empty", ""),
                        ("bare-cr", "first line\rsecond line"), ("mixed-ends", "a1\rb2\nc3\r\nd4"), ("cr-at-end", "lonely\r"),
                        ("blank-lines", "top\n\n\nbottom")):
        with sut.Server(binary, dict(motd=motd), hooks=hooks) as srv:
            c = wire.Client(srv.port, timeout=5.0)
            burst = c.register("motd", "motd")
            texts = [m.params[-1] for m in burst if m.verb == "372"]
            unprefixed = [m.raw for m in burst if m.source != "irc.verif.test"]
            want = [l for l in motd.replace("\r\n", "\n").replace("\r", "\n").split("\n")]
            seen_all = all(any(w in t for t in texts) for w in want if w) and not any("\r" in t or "\n" in t for t in texts) \
                and all(sum(1 for w in want if w and w in t) <= 1 for t in texts)
            out.append(dict(label=label, bad_frames=list(c.bad_frames), unprefixed=unprefixed[:3],
                            motd_lines_in_372=seen_all, n372=len(texts)))
            c.close()
    return out


# ------------------------------------------------------------------ plain vs TLS twin
TLS_SCRIPT = [
    ("a", "JOIN #t"), ("b", "JOIN #t"), ("a", "MODE #t +v b"), ("a", "TOPIC #t :the topic"), ("b", "PRIVMSG #t :hello a:b"),
    ("a", "NAMES #t"), ("b", "WHO #t"), ("a", "WHOIS b"), ("c", "LIST"), ("c", "PRIVMSG #t :outside"), ("a", "MODE #t +n"),
    ("c", "PRIVMSG #t :outside again"), ("b", "AWAY :gone"), ("a", "PRIVMSG b :are you there"), ("a", "KICK #t b :bye"),
    ("b", "JOIN #t"), ("b", "NICK bee"), ("a", "MODE #t +b bee!*@*"), ("a", "MODE #t"), ("c", "WHOIS a,bee"),
    ("a", "LUSERS"), ("c", "USERHOST a bee"), ("a", "INVITE c #t"), ("c", "JOIN #t"), ("bee", "PART #t :leaving"),
    ("a", "MOTD"), ("a", "VERSION"), ("c", "ISON a bee nobody"), ("a", "FOO bar"), ("a", "PRIVMSG"),
]


def tls_twin(plain_bin, tls_bin, hooks):
    cert = os.path.join(sut.REPO, "test_data", "cert.crt")
    key = os.path.join(sut.REPO, "test_data", "cert_key.crt")
    trs = []
    for tls in (False, True):
        cfg = dict(max_joins=4)
        if tls:
            cfg["tls"] = (cert, key)
        with sut.Server(tls_bin if tls else plain_bin, cfg, hooks=hooks, tls=tls) as srv:
            # sut's readiness probe makes a plain TCP connection; fine for both
            w = twin.ScriptWorld(srv, tls=tls)
            tr = []
            try:
                for n in ("a", "b", "c"):
                    burst = w.connect(n, n, n + "user")
                    tr.append(("burst:" + n, twin.normalise([m for m in burst if m.verb not in ("003",)])))
                names = {"a": "a", "b": "b", "c": "c", "bee": "b"}
                for who, line in TLS_SCRIPT:
                    lines = w.do(names[who], line)
                    got = w.settle()
                    got[names[who]] = list(lines) + got.get(names[who], [])
                    for k in sorted(got):
                        tr.append(("%s after %s:%s" % (k, who, line), twin.normalise(got[k], drop_codes=("671",))))
                secure = sum(1 for who, line in TLS_SCRIPT if line.startswith("WHOIS"))
            finally:
                w.close()
            trs.append(tr)
    return trs


def cli_tls(tls_bin):
    """-C/-K on the command line switch the listener to TLS although the file has no [tls] section"""
    port = sut.free_port()
    d = tempfile.mkdtemp(prefix="clitls-", dir=os.path.join(sut.BUILD_ROOT, "run"))
    cfg = minimal_cfg(tls_bin, port)
    cfg.pop("password")
    cfgp = os.path.join(d, "c.toml")
    with open(cfgp, "w") as f:
        f.write(dump_toml(cfg))
    cert = os.path.join(sut.REPO, "test_data", "cert.crt")
    key = os.path.join(sut.REPO, "test_data", "cert_key.crt")
    env = sut.cov_env(dict(os.environ, RUST_BACKTRACE="0"))
    p = subprocess.Popen([tls_bin, "-c", cfgp, "-C", cert, "-K", key], cwd=d, env=env, stdin=subprocess.DEVNULL,
                         stdout=subprocess.PIPE, stderr=subprocess.STDOUT)
    out = []
    try:
        up = wait_port("127.0.0.1", port, p, 8.0)
        out.append(("-C/-K: server starts", up))
        if up:
            try:
                c = wire.Client(port, tls=True, timeout=5.0)
                burst = c.register("clitls", "clitls")
                out.append(("-C/-K: TLS registration works", any(m.verb == "001" for m in burst)))
                c.close()
            except (wire.Closed, wire.Timeout, OSError) as ex:
                out.append(("-C/-K: TLS registration works", False))
            try:
                c = wire.Client(port, tls=False, timeout=3.0)
                c.send("NICK plain")
                c.send("USER plain 0 * :p")
                ok = False
                try:
                    lines = c.read_until(lambda m: m.verb == "001", 2.0)
                    ok = True
                except (wire.Closed, wire.Timeout):
                    pass
                out.append(("-C/-K: plain text is not served on the TLS port", not ok))
                c.close()
            except OSError:
                out.append(("-C/-K: plain text is not served on the TLS port", True))
    finally:
        if p.poll() is None:
            p.kill()
        p.wait(timeout=10)
        p.stdout.close()
        import shutil
        shutil.rmtree(d, ignore_errors=True)
    return out


# ------------------------------------------------------------------ ping_timeout / pong_timeout each govern their own interval
def timing_probe(binary, hooks):
    """"ping_timeout: time between PINGs", "pong_timeout: maximal time between PING and PONG": a silent client under
    (3, 1) and under (1, 3); the two settings must be told apart by the intervals they produce"""
    import threading
    from . import clock
    out = []
    lag = clock.Lag()
    lag.start()

    def one(P, Q, res):
        try:
            with sut.Server(binary, dict(ping_timeout=P, pong_timeout=Q), hooks=hooks) as srv:
                c = wire.Client(srv.port, timeout=P + Q + 6.0)
                c.keep_transcript = False
                c.register("tp%d%d" % (P, Q), "tp")
                t0 = time.monotonic()
                c.read_until(lambda m: m.verb == "PING", P + 4.0)
                t1 = time.monotonic()
                rest, kind = c.read_to_eof(Q + 5.0)
                t2 = time.monotonic()
                res.append((P, Q, t1 - t0, (t2 - t1) if kind else None))
                c.close()
        except (wire.Closed, wire.Timeout, OSError, RuntimeError) as ex:
            res.append((P, Q, None, repr(ex)))
    rs = []
    ths = [threading.Thread(target=one, args=(P, Q, rs)) for P, Q in ((3, 1), (1, 3))]
    for t in ths:
        t.start()
    for t in ths:
        t.join(30.0)
    lag.stop = True
    slack = 1.2 + lag.max_lag
    for P, Q, first_ping, drop in rs:
        if first_ping is None:
            out.append(("inconclusive", "timing probe (%d,%d): %s" % (P, Q, drop)))
            continue
        if not (P - 0.6 <= first_ping <= P + slack):
            out.append(("ping_timeout", "ping_timeout=%d pong_timeout=%d: the first PING came %.1f s after registration"
                        % (P, Q, first_ping)))
        if drop is None:
            out.append(("pong_timeout", "ping_timeout=%d pong_timeout=%d: a silent client was not dropped within %d s of "
                        "the PING" % (P, Q, Q + 5)))
        elif not (Q - 0.6 <= drop <= Q + slack):
            out.append(("pong_timeout", "ping_timeout=%d pong_timeout=%d: a silent client was dropped %.1f s after the "
                        "PING it did not answer" % (P, Q, drop)))
        else:
            out.append(("ok", (P, Q, round(first_ping, 2), round(drop, 2))))
    return out


# ------------------------------------------------------------------ predefined users are registered (+r) users
def account_modes(binary, hooks):
    """"predefined users": whoever logs in to a [[users]] account - with or without a mask on it - is a registered
    user (+r in 221 and MODE, 307 in WHOIS, may drop and take back +r); everybody else is not"""
    H = sut.password_hash(binary, "accpw")
    cfg = dict(users=[{"name": "acc1", "nick": "a1", "password": H},
                      {"name": "acc2", "nick": "a2", "password": H, "mask": "*!*@127.0.0.1"},
                      {"name": "acc3", "nick": "a3", "mask": "n3!*@*"},
                      {"name": "acc4", "nick": "a4"}])
    out = []
    with sut.Server(binary, cfg, hooks=hooks) as srv:
        for nick, user, pw, want_r in (("n1", "acc1", "accpw", True), ("n2", "acc2", "accpw", True), ("n3", "acc3", None, True),
                                       ("n4", "acc4", None, True), ("n5", "nobody", None, False)):
            c = wire.Client(srv.port, timeout=6.0)
            burst = c.register(nick, user, password=pw)
            m221 = [m.params[1] for m in burst if m.verb == "221" and len(m.params) > 1]
            out.append(("%s: 221 %s +r" % (user, "shows" if want_r else "does not show"),
                        bool(m221) and (("r" in m221[0]) == want_r)))
            c.send("WHOIS " + nick)
            wl = c.read_until(lambda m: m.verb == "318", 5.0)
            out.append(("%s: WHOIS %s 307" % (user, "has" if want_r else "has no"), any(m.verb == "307" for m in wl) == want_r))
            c.send("MODE %s -r" % nick)
            c.ping("a")
            c.send("MODE %s +r" % nick)
            l2 = c.ping("b")
            c.send("MODE " + nick)
            l3 = c.ping("c")
            now_r = any(m.verb == "221" and "r" in (m.params[1] if len(m.params) > 1 else "") for m in l3)
            out.append(("%s: +r %s be taken back after -r" % (user, "can" if want_r else "cannot"), now_r == want_r))
            if not want_r:
                out.append(("%s: MODE +r refused with 481" % user, any(m.verb == "481" for m in l2)))
            c.close()
    return out


# ------------------------------------------------------------------ default user modes govern what new users are
def default_mode_effects(binary, hooks):
    """"default user modes": each flag by itself and all together - the welcome burst's 221, the LUSERS counts (invisible,
    operators), the WALLOPS audience, the operator flag in USERHOST - and the counts after those users left"""
    out = []
    H = sut.password_hash(binary, "rootpw")
    flagsets = [("invisible",), ("oper",), ("local_oper",), ("wallops",), ("registered",),
                ("invisible", "local_oper", "wallops"), ()]
    letters = {"invisible": "i", "oper": "o", "local_oper": "O", "registered": "r", "wallops": "w"}
    for fs in flagsets:
        dm = {k: (k in fs) for k in letters}
        label = "+".join(fs) or "none"
        try:
            _default_mode_case(binary, hooks, fs, dm, label, letters, H, out)
        except (wire.Closed, wire.Timeout, OSError) as ex:
            out.append(("%s: every probe client is answered (%s)" % (label, type(ex).__name__), False))
    return out


def _default_mode_case(binary, hooks, fs, dm, label, letters, H, out):
    if True:
        with sut.Server(binary, dict(default_user_modes=dm, operators=[{"name": "root", "password": H}]), hooks=hooks) as srv:
            a = wire.Client(srv.port, timeout=6.0)
            b1 = a.register("dma", "dma")
            b = wire.Client(srv.port, timeout=6.0)
            b2 = b.register("dmb", "dmb")
            want = "+" + "".join(letters[k] for k in ("invisible", "oper", "local_oper", "registered", "wallops") if k in fs)
            got221 = [m.params[1] for m in b2 if m.verb == "221" and len(m.params) > 1]
            out.append(("%s: 221 is %s" % (label, want), got221 == [want]))
            n_inv = 2 if "invisible" in fs else 0
            n_op = 2 if ("oper" in fs or "local_oper" in fs) else 0
            l251 = [m.params[-1] for m in b2 if m.verb == "251"]
            l252 = [m.params[1] for m in b2 if m.verb == "252" and len(m.params) > 1]
            out.append(("%s: 251 counts %d invisible of 2" % (label, n_inv),
                        l251 == ["There are %d users and %d invisible on 1 servers" % (2 - n_inv, n_inv)]))
            out.append(("%s: 252 counts %d operators" % (label, n_op), (l252 == [str(n_op)]) if n_op else (l252 in ([], ["0"]))))
            a.send("USERHOST dmb")
            uh = " ".join(m.params[-1] for m in a.ping("u") if m.verb == "302")
            out.append(("%s: USERHOST operator flag" % label, ("dmb*=" in uh) == bool(n_op)))
            # somebody with operator status sends WALLOPS: exactly the +w users get it
            c = wire.Client(srv.port, timeout=6.0)
            c.register("dmc", "dmc")
            c.send("OPER root rootpw")
            ol = c.ping("o")
            # a predefined operator gets +o from OPER whatever the default modes gave it before (+O is not +o)
            c.send("MODE dmc")
            m221 = [m.params[1] for m in c.ping("m") if m.verb == "221" and len(m.params) > 1]
            out.append(("%s: OPER answers 381 and adds o to the default modes (%s)" % (label, m221),
                        any(m.verb == "381" for m in ol) and len(m221) == 1 and "o" in m221[0]
                        and set(m221[0]) >= set(want)))
            c.send("KILL nobody-there :probe")
            kl = c.ping("k")
            out.append(("%s: after OPER a KILL is not refused for lack of privileges" % label,
                        not any(m.verb == "481" for m in kl)))
            c.send("WALLOPS :to the audience")
            c.ping("w")
            # b's copy travels through b's own queue; a message b sends to itself queues up behind it (a PING would not:
            # a connection's loop serves its queue and its socket in no fixed order)
            b.send("PRIVMSG dmb :settle")
            gotw = any(m.verb == "WALLOPS" for m in
                       b.read_until(lambda m: m.verb == "PRIVMSG" and m.params[-1:] == ["settle"], 6.0))
            out.append(("%s: WALLOPS reaches a new user %s" % (label, "" if "wallops" in fs else "not"), gotw == ("wallops" in fs)))
            # they leave: the counters come back, nobody is left behind, the server still serves
            a.close()
            b.send("QUIT :bye")
            try:
                b.read_to_eof(3.0)
            except Exception:
                pass
            time.sleep(0.15)
            c.send("LUSERS")
            lu = c.ping("l")
            l251 = [m.params[-1] for m in lu if m.verb == "251"]
            l252 = [m.params[1] for m in lu if m.verb == "252" and len(m.params) > 1]
            inv_c = 1 if "invisible" in fs else 0
            out.append(("%s: after they left 251 counts the one user that stayed" % label,
                        l251 == ["There are %d users and %d invisible on 1 servers" % (1 - inv_c, inv_c)]))
            out.append(("%s: after they left 252 counts one operator" % label, l252 == ["1"]))
            c.close()
