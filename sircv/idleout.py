"""Sessions that end by ping timeout (the one ending of C06's list that needs real time): users with ranks, own
channels, +w, +i, operator status, away text and pending invitations go silent next to bystanders who answer; after
ping_timeout + pong_timeout the silent ones must be gone without a trace - and nothing else may have changed."""
import copy
import time

from . import invariants, sut, wire

RANK_LISTS = ("founders", "protecteds", "operators", "half_operators", "voices")


def _serve(clients, seconds):
    """answer the server's PINGs on behalf of the bystanders for `seconds`; -> lines seen per client"""
    seen = {c.name: [] for c in clients}
    end = time.monotonic() + seconds
    while time.monotonic() < end:
        for c in clients:
            try:
                for m in c.read_available(0.02):
                    seen[c.name].append(m)
                    if m.verb == "PING":
                        c.send("PONG :" + (m.params[-1] if m.params else ""))
            except (wire.Closed, OSError):
                pass
    return seen


def _at_eof(c):
    try:
        c.held = getattr(c, "held", []) + c.read_available(0.0)
    except (wire.Closed, OSError):
        return True
    return bool(c.eof)


def _expected(before, victims):
    """the snapshot after the victims are gone and nothing else has changed"""
    s = copy.deepcopy(before)
    for v in victims:
        u = s["users"].pop(v, None)
        if u is None:
            continue
        if u["invisible"]:
            s["invisible_users_count"] -= 1
        if u["oper"] or u["local_oper"]:
            s["operators_count"] -= 1
        if v in s["wallops_users"]:
            s["wallops_users"].remove(v)
    for cn in list(s["channels"]):
        c = s["channels"][cn]
        for v in victims:
            c["users"].pop(v, None)
            for k in RANK_LISTS:
                if c.get(k) and v in c[k]:
                    c[k].remove(v)
        if not c["users"] and not c["preconfigured"]:
            del s["channels"][cn]
    return s


def _norm(x):
    """rank lists: None and [] mean the same; order is irrelevant"""
    if isinstance(x, dict):
        return {k: _norm(v) for k, v in x.items()}
    if isinstance(x, list):
        return sorted((_norm(v) for v in x), key=repr)
    return x


def _diff(a, b, path=""):
    out = []
    if isinstance(a, dict) and isinstance(b, dict):
        for k in sorted(set(a) | set(b)):
            if k not in a or k not in b:
                out.append((path + "/" + k, a.get(k, "<absent>"), b.get(k, "<absent>")))
            else:
                out += _diff(a[k], b[k], path + "/" + k)
    elif (a or None) != (b or None):
        out.append((path, a, b))
    return out


def run_case(args):
    binary, hooks, seed, P, Q = args
    out = dict(findings=[], inconclusive=None, events=0, cls=("idle", P, Q))

    def bad(sig, detail):
        out["findings"].append(("idle:" + sig, "[P%d-Q%d] %s" % (P, Q, detail)))

    cfg = dict(ping_timeout=P, pong_timeout=Q,
               operators=[{"name": "root", "password": sut.password_hash(binary, "rootpw")}],
               channels=[{"name": "#keep", "topic": "configured", "modes": {"voices": ["iv1"]}}])
    cs = []
    try:
        with sut.Server(binary, cfg, hooks=hooks) as srv:
            def cl(name, nick, user):
                c = wire.Client(srv.port, name=name, timeout=10.0)
                c.keep_transcript = False
                cs.append(c)
                c.register(nick, user)
                return c
            a, b, o = cl("a", "anna", "an"), cl("b", "bert", "bt"), cl("o", "olga", "og")
            t_by = time.monotonic()
            o.send("OPER root rootpw")
            a.send("JOIN #pt,#inv")
            a.send("MODE #inv +i")
            a.send("MODE anna +w")
            a.ping("s1")
            b.send("JOIN #pt")
            b.send("AWAY :bert is away")
            b.ping("s2")
            a.send("MODE #pt +v bert")
            a.send("INVITE bert #inv")
            a.ping("s3")
            vics = []
            t_v = time.monotonic()
            for i in range(5):
                v = cl("v%d" % i, "iv%d" % i, "u%d" % i)
                v.send("JOIN #pt,#solo%d,#keep" % i)
                v.ping("j")
                vics.append(v)
            a.send("MODE #pt +o iv0")
            a.send("MODE #pt +hv iv1 iv1")
            a.send("INVITE iv0 #inv")
            vics[2].send("MODE iv2 +wi")
            vics[2].send("AWAY :iv2 is away")
            vics[3].send("OPER root rootpw")
            vics[3].send("MODE iv3 +w")
            vics[0].send("TOPIC #solo0 :a topic that dies with the channel")
            for v in vics[:4]:
                v.ping("s")
            a.ping("s4")
            o.ping("s5")
            # iv4's last bytes are the beginning of a line
            vics[4].send_raw(b"PRIVMSG #pt :unfin")
            names = ["iv%d" % i for i in range(5)]
            before = srv.snap() if hooks else None
            if time.monotonic() - t_by > P - 0.5:
                out["inconclusive"] = "set-up took %.1f s (ping_timeout %d s)" % (time.monotonic() - t_by, P)
                return out
            # --- the victims fall silent, the bystanders answer
            seen = _serve([a, b, o], (t_v - time.monotonic()) + P + Q + 2.0)
            out["events"] += sum(len(v) for v in seen.values())
            # (generous: a loaded machine may be late; how late is C17's question, asked there with measured lag)
            extra = time.monotonic() + 4.0
            while time.monotonic() < extra and not all(_at_eof(v) for v in vics):
                _serve([a, b, o], 0.2)
            gone = []
            for v, n in zip(vics, names):
                try:
                    lines, eof = v.read_to_eof(0.5)
                except (wire.Closed, OSError):
                    lines, eof = [], "closed"
                if eof is None:
                    bad("not-dropped", "%s was silent for %.1f s and is still connected" % (n, time.monotonic() - t_v))
                else:
                    gone.append(n)
            if len(gone) < len(names):
                return out  # C17's business; the clean-up cannot be judged
            for c, n in ((a, "anna"), (b, "bert"), (o, "olga")):
                if c.eof or any(m.verb == "ERROR" for m in seen[c.name]):
                    bad("live-peer-dropped", "%s answered every PING and was disconnected" % n)
                    return out
            # --- no trace (wire level)
            a.send("ISON " + " ".join(names))
            il = a.ping("is")
            left = " ".join(m.params[-1] for m in il if m.verb == "303").split()
            if left:
                bad("ghost-user", "ISON still lists %s after their ping timeouts" % left)
            a.send("NAMES #pt")
            nl = a.read_until(lambda m: m.verb == "366", 8.0)
            got = set(" ".join(m.params[-1] for m in nl if m.verb == "353").split())
            if got != {"~anna", "+bert"}:
                bad("roster", "NAMES #pt is %s, expected ['+bert', '~anna']" % sorted(got))
            a.send("LIST")
            ll = a.read_until(lambda m: m.verb == "323", 8.0)
            listed = {m.params[1] for m in ll if m.verb == "322"}
            if any(x.startswith("#solo") for x in listed):
                bad("ghost-channel", "LIST still shows %s" % sorted(x for x in listed if x.startswith("#solo")))
            if "#keep" not in listed:
                bad("configured-channel-gone", "the configured channel #keep vanished with its last member")
            for n in names:
                a.send("WHOWAS " + n)
                wl = a.read_until(lambda m: m.verb == "369", 8.0)
                if not any(m.verb == "314" and m.params[1] == n and m.params[2] == "~u" + n[2:] for m in wl):
                    bad("no-whowas", "WHOWAS %s after its ping timeout: %s" % (n, [m.raw for m in wl][:3]))
                out["events"] += len(wl)
            o.send("WALLOPS :after the timeouts")
            o.ping("w")
            wa = [m for m in a.read_available(0.3) if m.verb == "WALLOPS"]
            if len(wa) != 1:
                bad("wallops-audience", "anna (+w) got %d copies of a WALLOPS" % len(wa))
            # nothing else changed: bert is still away, still voiced, still invited
            o.send("PRIVMSG bert :are you there")
            ol = o.ping("aw")
            if not any(m.verb == "301" for m in ol):
                bad("bystander-changed", "bert's away text is gone")
            b.send("JOIN #inv")
            bl = b.ping("inv")
            if not any(m.verb == "JOIN" for m in bl):
                bad("invitation-lost", "bert's pending invitation to #inv no longer admits: %s" % [m.raw for m in bl][:2])
            # the nicknames are free at once; the newcomer inherits nothing
            n0 = wire.Client(srv.port, name="n0", timeout=10.0)
            cs.append(n0)
            wl = n0.register("iv0", "fresh")
            if not any(m.verb == "001" for m in wl):
                bad("nick-not-free", "registering iv0 after its owner's ping timeout: %s" % [m.raw for m in wl][-1:])
            else:
                n0.send("JOIN #inv")
                jl = n0.ping("j")
                if any(m.verb == "JOIN" for m in jl):
                    bad("invitation-inherited", "the new iv0 entered #inv on the old one's invitation")
                n0.send("JOIN #pt,#keep")
                n0.ping("j2")
                a.send("NAMES #pt")
                nl = a.read_until(lambda m: m.verb == "366", 8.0)
                got = set(" ".join(m.params[-1] for m in nl if m.verb == "353").split())
                if "iv0" not in got:
                    bad("rank-inherited", "the new iv0 on #pt: %s" % sorted(got))
            out["events"] += len(il) + len(nl) + len(ll)
            # --- no trace, nothing else changed (state level)
            if hooks:
                after = srv.snap()
                for inv_id, detail in invariants.check(after):
                    if inv_id != "I9":
                        bad("inv:" + inv_id, detail)
                exp = _expected(before, names)
                # what the checks above did on purpose
                exp["users"]["bert"]["channels"] = sorted(exp["users"]["bert"]["channels"] + ["#inv"])
                exp["users"]["bert"]["invited_to"] = []
                exp["channels"]["#inv"]["users"]["bert"] = ""
                if "iv0" in after["users"]:
                    exp["users"]["iv0"] = after["users"]["iv0"]
                    for cn in ("#pt", "#keep"):
                        exp["channels"][cn]["users"]["iv0"] = ""
                for k in ("users", "channels", "wallops_users", "invisible_users_count", "operators_count"):
                    for path, want, got_ in _diff(_norm(exp[k]), _norm(after[k]), k)[:4]:
                        bad("state:" + path.split("/")[0] + ("/" + path.split("/")[-1] if "/" in path else ""),
                            "after the ping timeouts %s is %r, expected %r" % (path, got_, want))
                for n in names:
                    if n not in after["nick_histories"]:
                        bad("no-whowas", "%s has no nick history entry" % n)
                if after["conns_count"] != 4:
                    bad("conns", "conns_count is %d with 4 open connections" % after["conns_count"])
    except (wire.Closed, wire.Timeout, OSError, RuntimeError) as ex:
        out["inconclusive"] = "ping-timeout endings: %r" % (ex,)
    finally:
        for c in cs:
            try:
                c.close()
            except OSError:
                pass
    return out
