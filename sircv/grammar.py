"""Reference IRC line grammar (RFC 1459 / 2812 / modern IRC), written from the statement of C13:
   [':' source SPACE] command {SPACE middle} [SPACE ':' trailing]
   * one or more blanks separate parameters,
   * a parameter that starts with ':' (after a blank) is the trailing one, it extends to the end of
     the line and may contain blanks and colons,
   * colons inside a middle parameter are ordinary characters,
   * the command is case-insensitive.
"""

BLANKS = " "


class ParseError(Exception):
    pass


def parse(line):
    """-> (source or None, command (as written), [params]); raises ParseError('empty'|'nocommand')"""
    i = 0
    n = len(line)
    while i < n and line[i] in BLANKS:
        i += 1
    if i == n:
        raise ParseError("empty")
    source = None
    if line[i] == ":":
        j = i + 1
        while j < n and line[j] not in BLANKS:
            j += 1
        source = line[i + 1:j]
        i = j
        while i < n and line[i] in BLANKS:
            i += 1
        if i == n:
            raise ParseError("nocommand")
    j = i
    while j < n and line[j] not in BLANKS:
        j += 1
    command = line[i:j]
    i = j
    params = []
    while True:
        while i < n and line[i] in BLANKS:
            i += 1
        if i == n:
            break
        if line[i] == ":":
            params.append(line[i + 1:])
            break
        j = i
        while j < n and line[j] not in BLANKS:
            j += 1
        params.append(line[i:j])
        i = j
    return source, command, params


def serialize(source, command, params, force_trailing=False, blanks=1, lead=0, tail=0):
    """canonical (or adversarial but equivalent) serialisation"""
    sp = " " * blanks
    out = " " * lead
    if source is not None:
        out += ":" + source + sp
    out += command
    for k, p in enumerate(params):
        last = k == len(params) - 1
        need = p == "" or p[0] == ":" or any(ch.isspace() for ch in p)  # the server splits at any white space
        if need and not last:
            raise ValueError("middle parameter not representable: %r" % (p,))
        if last and (need or force_trailing):
            out += sp + ":" + p
        else:
            out += sp + p
    if tail and not (params and (params[-1] == "" or any(ch.isspace() for ch in params[-1]) or force_trailing
                                 or params[-1][0] == ":")):
        out += " " * tail
    return out


class Msg:
    __slots__ = ("raw", "source", "verb", "params")

    def __init__(self, raw):
        self.raw = raw
        try:
            self.source, verb, self.params = parse(raw)
            self.verb = verb.upper()
        except ParseError:
            self.source, self.verb, self.params = None, "", []

    @property
    def is_numeric(self):
        return len(self.verb) == 3 and self.verb.isdigit()

    def __repr__(self):
        return "Msg(%r)" % (self.raw,)
