"""Wire level framing / dispatch driver for C13 (and reused by C05, C20)."""
import json
import random
import time

from . import sut, wire

# verb -> (minimal number of parameters, well formed sample parameters)
TABLE = [
    ("PASS", 1, ["secret"]), ("NICK", 1, ["zed"]), ("USER", 4, ["zed", "0", "*", "Zed Z"]),
    ("PING", 1, ["tok"]), ("PONG", 1, ["tok"]), ("OPER", 2, ["zed", "pw"]),
    ("JOIN", 1, ["#q", "key"]), ("PART", 1, ["#q", "reason"]), ("TOPIC", 1, ["#f", "new topic"]),
    ("NAMES", 0, ["#f"]), ("LIST", 0, ["#f"]), ("INVITE", 2, ["obs", "#f"]), ("KICK", 2, ["#f", "nobody", "why"]),
    ("MOTD", 0, []), ("VERSION", 0, []), ("ADMIN", 0, []), ("CONNECT", 1, ["irc.example.org", "6667"]),
    ("LUSERS", 0, []), ("TIME", 0, []), ("STATS", 1, ["u"]), ("LINKS", 0, []), ("HELP", 0, ["MAIN"]),
    ("INFO", 0, []), ("MODE", 1, ["#f", "+n"]), ("PRIVMSG", 2, ["obs", "hello there"]),
    ("NOTICE", 2, ["obs", "hello there"]), ("WHO", 1, ["obs"]), ("WHOIS", 1, ["obs"]),
    ("WHOWAS", 1, ["obs", "2"]), ("KILL", 2, ["obs", "bye"]), ("REHASH", 0, []), ("RESTART", 0, []),
    ("SQUIT", 2, ["irc.example.org", "bye"]), ("AWAY", 0, ["gone"]), ("USERHOST", 1, ["obs", "act"]),
    ("WALLOPS", 1, ["text"]), ("ISON", 1, ["obs", "act"]), ("DIE", 0, []), ("CAP", 1, ["LIST"]),
]

INVALID = [
    "JOIN nochanprefix", "JOIN #a,b", "PART nochan", "TOPIC nochan :x", "MODE #f +l notanumber",
    "MODE #f +Z", "MODE act +Z", "MODE #f +o", "MODE #f +k", "WHOWAS obs notnum", "STATS zz", "STATS Q",
    "CAP LS 301", "CAP FOO", "KICK #f a,#b", "PRIVMSG #,x :t", "INVITE #f #f", "CONNECT nodot",
    "JOIN #a,#b k1", "NICK a.b", "NICK #x", "OPER a.b pw", "KILL #x :r", "WHOIS a.b", "USERHOST a.b",
    "MODE #f nosign", "SQUIT nodot :x", "LIST #f nodot",
]


class Driver:
    def __init__(self, binary, hooks, seed):
        self.binary = binary
        self.hooks = hooks
        self.r = random.Random(seed)
        self.findings = []  # (signature, detail)
        self.cases = 0
        self.classes = set()
        self.samples = []

    def bad(self, sig, detail):
        self.findings.append((sig, detail))

    def pair(self, srv, tag=""):
        """actor + observer sharing channel #f"""
        a = wire.Client(srv.port, name="act" + tag)
        a.keep_raw = True
        a.register("act" + tag, "act")
        o = wire.Client(srv.port, name="obs" + tag)
        o.register("obs" + tag, "obs")
        a.send("JOIN #f")
        a.ping("j")
        o.send("JOIN #f")
        o.ping("j")
        a.ping("j2")
        return a, o

    def run(self, quick=True):
        with sut.Server(self.binary, {}, hooks=self.hooks) as srv:
            self.segments(srv)
            self.lengths(srv, quick)
            self.arity(srv)
            self.invalid(srv)
            self.lonely(srv)
            if self.hooks:
                s = srv.snap()
                if s["handler_aborts"]:
                    p, ab = srv.panics()
                    self.bad("framing:handler-abort", "handler aborted during framing driver: %s" % (p[-2:],))
        return self

    # ---- several lines per segment, one byte per segment, LF only, empty lines
    def segments(self, srv):
        a, o = self.pair(srv)
        a.read_available(0.05)
        tests = [
            ("multi", b"PING a1\r\nPING a2\r\nPING a3\r\n", ["a1", "a2", "a3"]),
            ("lf", b"PING l1\nPING l2\n", ["l1", "l2"]),
            ("empty", b"\r\n\r\n   \r\n\nPING e1\r\n", ["e1"]),
            ("mixed", b"PING m1\nPING m2\r\n\r\nPING m3\n", ["m1", "m2", "m3"]),
        ]
        for name, data, want in tests:
            a.send_raw(data)
            got = self.collect_pongs(a, want[-1])
            self.case("segments:" + name, data.decode())
            if got["tokens"] != want or got["other"]:
                self.bad("framing:" + name, "sent %r; PONG tokens %s (want %s); other lines %s"
                         % (data, got["tokens"], want, got["other"][:3]))
        # one byte per segment
        data = b"PING bytewise\r\nPRIVMSG #f :split across segments\r\nPING after\r\n"
        for i in range(len(data)):
            a.send_raw(data[i:i + 1])
            if i % 7 == 0:
                time.sleep(0.0005)
        got = self.collect_pongs(a, "after")
        self.case("segments:bytewise", "1 byte per segment x %d" % len(data))
        if got["tokens"] != ["bytewise", "after"] or got["other"]:
            self.bad("framing:bytewise", "byte-wise send: PONG tokens %s other %s" % (got["tokens"], got["other"][:3]))
        lines = o.read_available(0.2)
        texts = [m.params[-1] for m in lines if m.verb == "PRIVMSG"]
        if texts != ["split across segments"]:
            self.bad("framing:bytewise-relay", "observer got %s" % texts)
        # random splits of a burst
        burst = b"".join(b"PING r%d\r\n" % i for i in range(40))
        pos = 0
        while pos < len(burst):
            n = self.r.choice([1, 2, 3, 5, 8, 13, 50])
            a.send_raw(burst[pos:pos + n])
            pos += n
        got = self.collect_pongs(a, "r39")
        self.case("segments:random-splits", "40 PINGs in random segments")
        if got["tokens"] != ["r%d" % i for i in range(40)]:
            self.bad("framing:random-splits", "PONG tokens %s" % got["tokens"][:10])
        self.check_frames(a, "segments")
        a.close()
        o.close()

    def collect_pongs(self, c, last, timeout=5.0):
        toks, other = [], []
        try:
            lines = c.read_until(lambda m: m.verb == "PONG" and m.params[-1:] == [last], timeout)
        except (wire.Closed, wire.Timeout) as ex:
            lines = getattr(ex, "lines", [])
            other.append("<%s>" % type(ex).__name__)
        for m in lines:
            if m.verb == "PONG":
                toks.append(m.params[-1])
            else:
                other.append(m.raw)
        return {"tokens": toks, "other": other}

    def check_frames(self, c, where):
        if c.bad_frames:
            self.bad("framing:emitted-stream", "%s: %s" % (where, c.bad_frames[:3]))

    # ---- lines at, just under and over the length limit
    def lengths(self, srv, quick):
        lens = [1, 2, 510, 512, 513, 1000, 1990] + list(range(1995, 2006)) + [2010, 2100, 3000, 9000]
        if not quick:
            lens += list(range(1980, 1995)) + [4096, 20000, 70000]
        verdict = {}
        for L in sorted(set(lens)):
            a, o = self.pair(srv, str(L % 1000))
            head = "PRIVMSG #f :"
            if L < len(head) + 1:
                body = "PING x"[:max(L, 6)]
                a.send(body)
                a.ping("z")
                a.close()
                o.close()
                continue
            text = "".join(self.r.choice("abcdefgh ") for _ in range(L - len(head) - 8)) + "INJECT:x"
            if text[0] == " ":
                text = "q" + text[1:]
            line = head + text
            assert len(line.encode()) == L
            a.send_raw(line.encode() + b"\r\n")
            a.send_raw(b"PING after\r\n")
            got = {"417": False, "closed": False, "pong": False}
            try:
                for m in a.read_until(lambda m: m.verb == "PONG", 5.0):
                    if m.verb == "417":
                        got["417"] = True
                    if m.verb == "PONG":
                        got["pong"] = True
            except wire.Closed as ex:
                got["closed"] = True
                for m in ex.lines:
                    if m.verb == "417":
                        got["417"] = True
            except wire.Timeout:
                self.bad("framing:length-stall", "no answer after a %d byte line" % L)
            time.sleep(0.02)
            rel = [m for m in o.read_available(0.1) if m.verb == "PRIVMSG"]
            delivered = [m.params[-1] for m in rel]
            self.case("length:%s" % ("accept" if delivered else "reject"), "line of %d bytes" % L)
            if delivered:
                verdict[L] = "accepted"
                if delivered != [text] or got["417"]:
                    self.bad("framing:length-garbled", "%d byte line: delivered %d texts (first %r...), 417=%s"
                             % (L, len(delivered), delivered[0][:40], got["417"]))
            else:
                verdict[L] = "rejected"
                if not got["417"]:
                    self.bad("framing:overlong-no-417", "%d byte line neither delivered nor answered 417 (%s)" % (L, got))
            if L <= 1990 and verdict[L] != "accepted":
                self.bad("framing:short-line-rejected", "%d byte line rejected" % L)
            if L >= 2010 and verdict[L] != "rejected":
                self.bad("framing:overlong-executed", "%d byte line executed" % L)
            self.check_frames(a, "length %d" % L)
            a.close()
            o.close()
        # monotone
        acc = [L for L, v in verdict.items() if v == "accepted"]
        rej = [L for L, v in verdict.items() if v == "rejected"]
        if acc and rej and max(acc) > min(rej):
            self.bad("framing:limit-not-monotone", "accepted %d but rejected %d" % (max(acc), min(rej)))
        self.limit = (max(acc) if acc else None, min(rej) if rej else None)

    # ---- verb x arity on the wire
    def arity(self, srv):
        a, o = self.pair(srv, "ar")
        for verb, minp, sample in TABLE:
            for ar in range(0, len(sample) + 1):
                if ar >= minp and verb in ("NICK", "KILL", "DIE", "SQUIT", "PART", "KICK", "JOIN", "OPER",
                                           "PASS", "USER", "CAP", "AWAY", "MODE", "TOPIC", "INVITE"):
                    continue  # well formed and state changing: not part of this table
                v = verb if self.r.random() < 0.5 else verb.lower()
                line = v
                for k, p in enumerate(sample[:ar]):
                    line += (" :" if (" " in p and k == ar - 1) else " ") + p
                a.send(line)
                try:
                    lines = a.ping("ar", 5.0)
                except (wire.Closed, wire.Timeout) as ex:
                    self.bad("framing:arity-lost", "%r: %s" % (line, type(ex).__name__))
                    a, o = self.pair(srv, "ar%d" % self.cases)
                    continue
                codes = [m.verb for m in lines]
                self.case("arity:%s:%d" % (verb, ar), line)
                if ar < minp:
                    ok = any(m.verb == "461" and m.params[1:2] == [verb] for m in lines)
                    if not ok:
                        self.bad("framing:no-461:%s" % verb, "%r answered %s" % (line, [m.raw for m in lines][:3]))
                else:
                    if "461" in codes or "421" in codes:
                        self.bad("framing:spurious-%s:%s" % ("461" if "461" in codes else "421", verb),
                                 "%r answered %s" % (line, [m.raw for m in lines][:3]))
        for v in ["FOO", "PRIVMSGX", "JOI", "00", "ÉCRIRE", "P", "PRıVMSG", "TOPıC", "nıck", "uſer", "paß", "LIﬆ", "quıt",
                  "JOıN", "kıck", "awaſ"]:
            a.send(v + " a b")
            try:
                lines = a.ping("un", 5.0)
            except (wire.Closed, wire.Timeout) as ex:
                self.bad("framing:unknown-lost", "%r: %s" % (v, type(ex).__name__))
                a, o = self.pair(srv, "un%d" % self.cases)
                continue
            self.case("unknown:" + v, v + " a b")
            if not any(m.verb == "421" for m in lines):
                self.bad("framing:no-421", "%r answered %s" % (v, [m.raw for m in lines][:3]))
        self.check_frames(a, "arity")
        a.close()
        o.close()

    # ---- invalid parameters are answered with an error and not executed
    def invalid(self, srv):
        a, o = self.pair(srv, "iv")
        if self.hooks:
            # clients of the earlier phases are torn down asynchronously: wait until only this pair is left, so
            # that a snapshot difference can only come from the line under test
            deadline = time.monotonic() + 5.0
            while time.monotonic() < deadline and set(srv.snap()["users"]) != {"activ", "obsiv"}:
                time.sleep(0.005)
        for line in INVALID:
            before = srv.snap() if self.hooks else None
            a.send(line)
            try:
                lines = a.ping("iv", 5.0)
            except (wire.Closed, wire.Timeout) as ex:
                self.bad("framing:invalid-lost", "%r: %s" % (line, type(ex).__name__))
                a, o = self.pair(srv, "iv%d" % self.cases)
                continue
            self.case("invalid:" + line.split()[0], line)
            err = [m for m in lines if m.verb.startswith("ERROR") or (m.is_numeric and m.verb[0] in "4569")]
            if not err:
                self.bad("framing:invalid-silent:" + line.split()[0], "%r answered %s" % (line, [m.raw for m in lines][:3]))
            if before is not None:
                after = srv.snap()
                for k in ("users", "channels", "wallops_users"):
                    if json.dumps(before[k], sort_keys=True) != json.dumps(after[k], sort_keys=True):
                        self.bad("framing:invalid-executed:" + line.split()[0], "%r changed %s" % (line, k))
            got = o.read_available(0.0)
            if [m for m in got if not m.is_numeric]:
                self.bad("framing:invalid-relayed:" + line.split()[0], "%r reached the observer: %s" % (line, got[0].raw))
        a.close()
        o.close()

    # ---- a rejected line is answered by itself, not only once the next line arrives
    def lonely(self, srv):
        """"either executed or answered with the specific error": one rejected line, then silence; the error reply must
        come without anything else being sent.  Deciding step: if nothing came during the silence and the reply then
        arrives right after the next line (before that line's own answer), the server had been sitting on it"""
        a, o = self.pair(srv, "l")
        a.read_available(0.05)
        cases = [("unknown-verb", "FROBNICATE now", "421"), ("missing-params", "KICK", "461"),
                 ("invalid-parameter", "JOIN nochannelprefix", None), ("unknown-cap", "CAP FROB", None),
                 ("missing-params-2", "PRIVMSG", "461"), ("unknown-mode", "MODE #l +Z", None)]
        for name, line, code in cases:
            a.send(line)
            got = []
            t0 = time.monotonic()
            try:
                got = a.read_until(lambda m: m.is_numeric or m.verb.startswith("ERROR"), 2.5)
            except wire.Timeout as ex:
                got = getattr(ex, "lines", [])
            except wire.Closed:
                self.bad("framing:lonely-closed", "connection closed after %r" % line)
                return
            self.case("lonely:" + name, line)
            answered = any(m.is_numeric or m.verb.startswith("ERROR") for m in got)
            if answered:
                if code and not any(m.verb == code for m in got):
                    self.bad("framing:lonely-wrong-reply", "%r answered with %s, expected %s" % (line, [m.raw for m in got][:2], code))
                continue
            # nothing during the silence: does it arrive with the next line?
            later = a.ping("ln", 5.0)
            late = [m for m in later if m.is_numeric or m.verb.startswith("ERROR")]
            if late:
                self.bad("framing:reply-withheld", "%r drew no reply during %.1f s of silence; the reply %r arrived only after "
                         "the next line had been sent" % (line, time.monotonic() - t0, late[0].raw))
            else:
                self.bad("framing:no-error-reply", "%r was neither executed nor answered with an error" % line)
        # "empty lines are ignored" - and do not hold back what follows them in the same segment
        for k, blob in enumerate([b"\r\nPING :after-blank\r\n", b"\r\n\r\n\r\nPING :after-blanks\r\n", b"\nPING :after-lf\n",
                                  b"PING :first\r\n\r\nPING :second\r\n", b"\r\nFROBNICATE\r\n"]):
            a.send_raw(blob)
            want = blob.count(b"PING") or 1
            got = []
            try:
                while len([m for m in got if m.verb in ("PONG", "421")]) < want:
                    got += a.read_until(lambda m: m.verb in ("PONG", "421"), 2.5)
            except wire.Timeout as ex:
                got += getattr(ex, "lines", [])
                self.bad("framing:held-back-by-empty-line", "%r sent in one segment: %d of %d answers within 2.5 s of silence (%s)"
                         % (blob, len([m for m in got if m.verb in ("PONG", "421")]), want, [m.raw for m in got][:2]))
                a.ping("flush", 5.0)
            except wire.Closed:
                self.bad("framing:lonely-closed", "connection closed after %r" % blob)
                return
            self.case("lonely:after-empty-line:%d" % k, repr(blob))
        a.close()
        o.close()

    def case(self, cls, sample):
        self.cases += 1
        self.classes.add(cls)
        if len(self.samples) < 6 and self.r.random() < 0.05:
            self.samples.append({"class": cls, "input": sample[:120]})
