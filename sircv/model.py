"""Executable reference model of the IRC semantics fixed by the property statements.

The model is sequential and deterministic.  For one command executed in a known pre-state it
returns an `Exp` (what has to be observable) and updates itself to the predicted post-state.
Where the statements are silent the model still predicts what this implementation does, but marks
the step (or the aspect) as unspecified so that the checker only resynchronises and never alarms.
"""
import copy

from . import glob

RANKS = "qaohv"
PREFIX = {"q": "~", "a": "&", "o": "@", "h": "%", "v": "+"}
PREFIX_INV = {v: k for k, v in PREFIX.items()}
ANY = object()  # wildcard in expected relay parameters


class Any:
    def __repr__(self):
        return "<any>"


class MUser:
    def __init__(self, nick, user, host, realname, modes=(), cfg_registered=False):
        self.nick = nick
        self.user = user
        self.host = host
        self.realname = realname
        self.modes = set(modes)  # subset of i o O r w
        self.away = None
        self.channels = set()
        self.invited = set()
        self.cfg_registered = cfg_registered

    @property
    def source(self):
        return "%s!~%s@%s" % (self.nick, self.user, self.host)

    @property
    def is_oper(self):
        return "o" in self.modes

    @property
    def is_any_oper(self):
        return "o" in self.modes or "O" in self.modes


class MChan:
    def __init__(self, name):
        self.name = name
        self.topic = None
        self.flags = set()  # subset of i m s t n
        self.key = None
        self.limit = None
        self.ban = set()
        self.exc = set()
        self.invex = set()
        self.members = {}  # nick -> set of rank letters
        self.preconf = False
        self.defaults = {r: set() for r in RANKS}

    def banned(self, source):
        return glob.any_match(self.ban, source) and not glob.any_match(self.exc, source)


def is_protected(r):
    return "q" in r or "a" in r


def is_op(r):
    return bool(r & set("qao"))


def is_halfop(r):
    return bool(r & set("qaoh"))


def is_only_halfop(r):
    return "h" in r and not (r & set("qao"))


def has_voice(r):
    return bool(r)


class Config:
    """the part of the configuration the model needs (plain passwords, not hashes)"""

    def __init__(self, name="irc.verif.test", max_joins=None, password=None, default_modes=(),
                 operators=None, users=None, channels=None, network="VerifNet"):
        self.name = name
        self.network = network
        self.max_joins = max_joins
        self.password = password
        self.default_modes = set(default_modes)
        self.operators = operators or {}  # name -> (password, mask or None)
        self.users = users or {}  # name -> (password or None, mask or None)
        self.channels = channels or []  # list of dict(name, topic, modes{...})


class Exp:
    def __init__(self, verb, props):
        self.verb = verb
        self.props = set(props)
        self.must = []  # [(code, {param index: value})] numerics the actor must receive
        self.forbid = set()  # numerics the actor must not receive
        self.only = None  # if a set: no numeric outside it may reach the actor
        self.relays = []  # [(cid, source, verb, params)] exact multiset of non-numeric lines
        self.relays_opt = []  # lines that may or may not appear
        self.unspec_state = False
        self.unspec_relays = False
        self.unspec_replies = False
        self.closes = []  # cids whose connection the server must close in this step
        self.error_to = {}  # cid -> substring that must occur in the ERROR line
        self.query = None  # callable(lines) -> [violation detail strings]
        self.shape = ""  # abstract shape of the command (for signatures and coverage)
        self.cover = []  # coverage class tuples
        self.notes = []

    def need(self, code, **kw):
        self.must.append((code, {int(k[1:]): v for k, v in kw.items()}))


class Model:
    def __init__(self, cfg, host="127.0.0.1"):
        self.cfg = cfg
        self.host = host
        self.users = {}
        self.chans = {}
        self.whowas = {}  # nick -> number of records
        self.max_users = 0
        self.owner = {}  # nick -> cid
        self.conn = {}  # cid -> dict(nick, multi_prefix)
        for c in cfg.channels:
            ch = MChan(c["name"])
            ch.preconf = True
            ch.topic = c.get("topic")
            m = c.get("modes", {})
            for k, l in (("invite_only", "i"), ("moderated", "m"), ("secret", "s"),
                         ("protected_topic", "t"), ("no_external_messages", "n")):
                if m.get(k):
                    ch.flags.add(l)
            ch.key = m.get("key")
            ch.limit = m.get("client_limit")
            ch.ban = set(m.get("ban") or ())
            ch.exc = set(m.get("exception") or ())
            ch.invex = set(m.get("invite_exception") or ())
            for k, r in (("founders", "q"), ("protecteds", "a"), ("operators", "o"),
                         ("half_operators", "h"), ("voices", "v")):
                ch.defaults[r] = set(m.get(k) or ())
            self.chans[ch.name] = ch

    # ------------------------------------------------------------ helpers
    def clone(self):
        return copy.deepcopy(self)

    def user_of(self, cid):
        n = self.conn[cid]["nick"]
        return self.users[n]

    def cid_of(self, nick):
        return self.owner[nick]

    def share_channel(self, a, b):
        return bool(a.channels & b.channels)

    def prefixes(self, ranks, multi):
        s = "".join(PREFIX[r] for r in RANKS if r in ranks)
        return s if multi else s[:1]

    def canon(self):
        """canonical state for comparison with a snapshot"""
        return {
            "users": {n: {"user": u.user, "host": u.host, "realname": u.realname,
                          "modes": "".join(sorted(u.modes)), "away": u.away,
                          "channels": sorted(u.channels), "invited": sorted(u.invited)}
                      for n, u in self.users.items()},
            "chans": {n: {"topic": c.topic, "flags": "".join(sorted(c.flags)), "key": c.key,
                          "limit": c.limit, "ban": sorted(c.ban), "exc": sorted(c.exc),
                          "invex": sorted(c.invex), "preconf": c.preconf,
                          "members": {m: "".join(r for r in RANKS if r in rk)
                                      for m, rk in c.members.items()}}
                      for n, c in self.chans.items()},
            "whowas": dict(self.whowas),
            "max_users": self.max_users,
        }

    def load_snapshot(self, snap):
        """replace the volatile part of the model by what the snapshot shows (resynchronise)"""
        users = {}
        for n, s in snap["users"].items():
            old = self.users.get(n)
            u = MUser(n, s["name"], s["hostname"], s["realname"])
            for k, l in (("invisible", "i"), ("oper", "o"), ("local_oper", "O"),
                         ("registered", "r"), ("wallops", "w")):
                if s[k]:
                    u.modes.add(l)
            u.away = s["away"]
            u.channels = {cn for cn in s["channels"] if cn in snap["channels"] and n in snap["channels"][cn]["users"]}
            u.invited = set(s["invited_to"])
            u.cfg_registered = old.cfg_registered if old else False
            users[n] = u
        self.users = users
        chans = {}
        for n, s in snap["channels"].items():
            c = MChan(n)
            c.topic = s["topic"]
            for k, l in (("invite_only", "i"), ("moderated", "m"), ("secret", "s"),
                         ("protected_topic", "t"), ("no_external_messages", "n")):
                if s[k]:
                    c.flags.add(l)
            c.key = s["key"]
            c.limit = s["client_limit"]
            c.ban = set(s["ban"] or ())
            c.exc = set(s["exception"] or ())
            c.invex = set(s["invite_exception"] or ())
            # (a member the server lists without such a user existing is reported by invariant I1 at the step that
            # produced it; the model carries on with the members that exist)
            c.members = {m: set(r) for m, r in s["users"].items() if m in users}
            c.preconf = s["preconfigured"]
            d = s["default_modes"]
            for k, r in (("founders", "q"), ("protecteds", "a"), ("operators", "o"),
                         ("half_operators", "h"), ("voices", "v")):
                c.defaults[r] = set(d[k])
            chans[n] = c
        self.chans = chans
        self.whowas = {n: len(v) for n, v in snap["nick_histories"].items()}
        self.max_users = snap["max_users_count"]

    # ------------------------------------------------------------ connection life cycle
    def new_conn(self, cid):
        self.conn[cid] = {"nick": None, "multi_prefix": False}

    def register(self, cid, nick, user, realname, multi_prefix=False):
        """a registration the generator knows to be acceptable (free nick, right password)"""
        e = Exp("REGISTER", ("C02", "C03", "C19"))
        cfgu = self.cfg.users.get(user)
        u = MUser(nick, user, self.host, realname, self.cfg.default_modes,
                  cfg_registered=cfgu is not None)
        if cfgu is not None:
            u.modes.add("r")
        self.users[nick] = u
        self.owner[nick] = cid
        self.conn[cid] = {"nick": nick, "multi_prefix": multi_prefix}
        self.max_users = max(self.max_users, len(self.users))
        e.need("001", p0=nick)
        e.need("221", p0=nick, p1="+" + "".join(l for l in "ioOrw" if l in u.modes))
        self._lusers_need(e, nick)
        e.shape = "register"
        return e

    def _lusers_need(self, e, nick):
        inv = sum(1 for u in self.users.values() if "i" in u.modes)
        ops = sum(1 for u in self.users.values() if u.is_any_oper)
        n = len(self.users)
        e.need("251", p0=nick, p1="There are %d users and %d invisible on 1 servers" % (n - inv, inv))
        e.need("252", p0=nick, p1=str(ops))
        e.need("254", p0=nick, p1=str(len(self.chans)))
        e.need("255", p0=nick, p1="I have %d clients and 1 servers" % n)
        e.need("265", p0=nick, p1=str(n), p2=str(self.max_users))
        e.need("266", p0=nick, p1=str(n), p2=str(self.max_users))

    def remove_user(self, nick):
        """an ending: the user disappears from everything; WHOWAS record kept"""
        u = self.users.pop(nick)
        for cn in list(u.channels):
            c = self.chans.get(cn)
            if c is not None:
                c.members.pop(nick, None)
                if not c.members and not c.preconf:
                    del self.chans[cn]
        self.whowas[nick] = self.whowas.get(nick, 0) + 1
        cid = self.owner.pop(nick)
        self.conn.pop(cid, None)
        return cid

    def drop_conn(self, cid):
        """client side ending (close, reset, ...) or server side ending of connection cid"""
        e = Exp("END", ("C06", "C02", "C16", "C19"))
        c = self.conn.get(cid)
        if c and c["nick"] is not None:
            self.remove_user(c["nick"])
        else:
            self.conn.pop(cid, None)
        e.shape = "end"
        return e

    # ------------------------------------------------------------ commands
    def step(self, cid, cmd):
        """cmd: dict with key 'verb' and verb specific fields"""
        return getattr(self, "do_" + cmd["verb"].lower())(cid, cmd)

    # ---- CAP after registration: capability changes only, never an effect on the session's fate
    def do_cap(self, cid, cmd):
        e = Exp("CAP", ("C06", "C04", "C03", "C02"))
        e.only = set()  # capability replies are CAP lines; no numeric is due for a registered client
        sub = cmd["sub"]
        if sub == "REQ":
            if cmd.get("caps") == ["multi-prefix"]:
                self.conn[cid]["multi_prefix"] = True
        e.shape = "cap:" + sub.lower()
        e.cover.append(("cap", sub, tuple(cmd.get("caps") or ())))
        return e

    # ---- USER / PASS from a registered client: refused (462), identity untouched
    def do_reuser(self, cid, cmd):
        e = Exp("REUSER", ("C01", "C02", "C03"))
        u = self.user_of(cid)
        e.need("462", p0=u.nick)
        e.shape = "reuser:" + cmd["what"]
        e.cover.append(("reuser", cmd["what"]))
        return e

    # ---- JOIN
    def do_join(self, cid, cmd):
        e = Exp("JOIN", ("C07", "C16", "C04"))
        u = self.user_of(cid)
        chans, keys = cmd["chans"], cmd.get("keys")
        if len(set(chans)) != len(chans):
            e.unspec_state = e.unspec_relays = e.unspec_replies = True
            e.shape = "join:dup"
        for cn in chans:
            c = self.chans.get(cn)
            if cn in u.invited:
                e.props.add("C09")  # an invitation grants one admission
            if c is not None:
                if c.ban or c.exc or c.invex:
                    e.props.add("C14")
                if c.key is not None or c.limit is not None or c.flags or c.ban:
                    e.props.add("C08")  # an applied mode is enforced by JOIN from then on
        count = len(u.channels)
        decisions = []
        for i, cn in enumerate(chans):
            c = self.chans.get(cn)
            vec = None
            errs = []
            if c is None:
                join, create = True, True
            else:
                create = False
                key_ok = c.key is None or (keys is not None and keys[i] == c.key)
                ban_ok = not c.banned(u.source)
                inv_ok = ("i" not in c.flags) or cn in u.invited or glob.any_match(c.invex, u.source)
                lim_ok = c.limit is None or len(c.members) < c.limit
                member = u.nick in c.members
                join = key_ok and ban_ok and inv_ok and lim_ok and not member
                vec = (key_ok, ban_ok, inv_ok, lim_ok)
                if not key_ok:
                    errs.append("475")
                if not ban_ok:
                    errs.append("474")
                if not inv_ok:
                    errs.append("473")
                if not lim_ok:
                    errs.append("471")
                if member:
                    e.unspec_replies = True
                    e.notes.append("already member of %s" % cn)
            quota_ok = self.cfg.max_joins is None or count < self.cfg.max_joins
            if not quota_ok:
                errs.append("405")
            join = join and quota_ok
            decisions.append((cn, join, create, errs))
            if vec is not None and u.nick not in c.members:
                e.cover.append(("join", vec + (quota_ok,), join))
            elif create:
                e.cover.append(("create", quota_ok))
            if join:
                count += 1
        # effects
        for cn, join, create, errs in decisions:
            if join:
                if create:
                    # (a name repeated in one JOIN list is decided twice while the channel does not exist yet:
                    # this server creates it again; unspecified, mirrored here so that the model stays in step)
                    c = MChan(cn)
                    c.members[u.nick] = {"q", "o"}
                    self.chans[cn] = c
                else:
                    c = self.chans[cn]
                    c.members[u.nick] = {r for r in RANKS if u.nick in c.defaults[r]}
                u.channels.add(cn)
                u.invited.discard(cn)
        multi = self.conn[cid]["multi_prefix"]
        for cn, join, create, errs in decisions:
            if join:
                c = self.chans[cn]
                for m in c.members:
                    e.relays.append((self.owner[m], u.source, "JOIN", (cn,)))
                names = {self.prefixes(r, multi) + m for m, r in c.members.items()}
                e.query = _chain(e.query, _names_checker(cn, names, names, "join-353"))
                e.need("366", p0=u.nick, p1=cn)
                if c.topic is not None:
                    e.need("332", p0=u.nick, p1=cn, p2=c.topic)
                e.forbid |= {"475", "474", "473", "471", "405"} if len(chans) == 1 else set()
            else:
                if errs:
                    # at least one of the matching errors, and no error for a condition that holds
                    e.query = _chain(e.query, _join_error_checker(cn, errs))
        if not e.shape:
            e.shape = "join:" + ",".join(
                ("create" if cr else "accept") if j else "refuse[%s]" % "+".join(er)
                for _, j, cr, er in decisions)
        return e

    # ---- PART
    def do_part(self, cid, cmd):
        e = Exp("PART", ("C04", "C16"))
        u = self.user_of(cid)
        for cn in cmd["chans"]:
            c = self.chans.get(cn)
            if c is None:
                e.need("403", p0=u.nick, p1=cn)
            elif u.nick not in c.members:
                e.need("442", p0=u.nick, p1=cn)
            else:
                params = (cn,) if cmd.get("reason") is None else (cn, cmd["reason"])
                for m in c.members:
                    e.relays.append((self.owner[m], u.source, "PART", params))
                del c.members[u.nick]
                u.channels.discard(cn)
                if not c.members and not c.preconf:
                    del self.chans[cn]
                    e.cover.append(("part-last",))
        e.shape = "part"
        return e

    # ---- KICK
    def do_kick(self, cid, cmd):
        e = Exp("KICK", ("C09", "C04", "C16"))
        u = self.user_of(cid)
        cn = cmd["chan"]
        c = self.chans.get(cn)
        if c is None:
            e.need("403", p0=u.nick, p1=cn)
            e.shape = "kick:nochan"
            return e
        if u.nick not in c.members:
            e.need("442", p0=u.nick, p1=cn)
            e.shape = "kick:outsider"
            e.cover.append(("kick", "outsider"))
            return e
        ar = c.members[u.nick]
        if not is_halfop(ar):
            e.props.add("C08")  # ranks given and taken by MODE are "enforced by ... KICK ... from then on"
            e.need("482", p0=u.nick, p1=cn)
            e.shape = "kick:lowrank"
            e.cover.append(("kick", "low:" + "".join(sorted(ar))))
            return e
        kicked = []
        shapes = []
        for v in cmd["users"]:
            if v in kicked:
                # repeated name: once is enough; reply unspecified
                e.unspec_replies = True
                shapes.append("dup")
                continue
            vr = c.members.get(v)
            if vr:
                e.props.add("C08")  # the victim's rank against the actor's decides
            if vr is None:
                e.need("441", p0=u.nick, p1=v, p2=cn)
                shapes.append("absent")
            elif is_protected(vr) or (is_halfop(vr) and is_only_halfop(ar)):
                shapes.append("refused")
                e.cover.append(("kick", "refused", _rk(ar), _rk(vr)))
            else:
                kicked.append(v)
                shapes.append("self" if v == u.nick else "ok")
                e.cover.append(("kick", "ok", _rk(ar), _rk(vr)))
        for v in kicked:
            del c.members[v]
            self.users[v].channels.discard(cn)
        comment = cmd.get("comment")
        for v in kicked:
            params = (cn, v, comment if comment is not None else ANY)
            for m in c.members:
                e.relays.append((self.owner[m], u.source, "KICK", params))
            e.relays.append((self.owner[v], u.source, "KICK", params))
        if not c.members and not c.preconf:
            del self.chans[cn]
            shapes.append("emptied")
        e.shape = "kick:" + "+".join(shapes)
        return e

    # ---- TOPIC
    def do_topic(self, cid, cmd):
        e = Exp("TOPIC", ("C09",))
        u = self.user_of(cid)
        cn = cmd["chan"]
        c = self.chans.get(cn)
        text = cmd.get("text")
        if c is None:
            e.need("403", p0=u.nick, p1=cn)
            e.shape = "topic:nochan"
            return e
        if text is None:
            e.props = {"C09", "C12"}
            if u.nick not in c.members:
                e.need("442", p0=u.nick, p1=cn)
                e.unspec_replies = "s" not in c.flags  # reading a topic from outside: unspecified
                e.forbid |= {"332"} if "s" in c.flags else set()
            elif c.topic is None:
                e.need("331", p0=u.nick, p1=cn)
            else:
                e.need("332", p0=u.nick, p1=cn, p2=c.topic)
            e.shape = "topic:read"
            return e
        if u.nick not in c.members:
            e.need("442", p0=u.nick, p1=cn)
            e.shape = "topic:outsider"
            e.cover.append(("topic", "outsider"))
            return e
        r = c.members[u.nick]
        if "t" in c.flags:
            e.props.add("C08")
        if "t" in c.flags and not is_halfop(r):
            e.need("482", p0=u.nick, p1=cn)
            e.shape = "topic:lowrank"
            e.cover.append(("topic", "refused", _rk(r)))
            return e
        c.topic = text if text != "" else None
        for m in c.members:
            e.relays.append((self.owner[m], u.source, "TOPIC", (cn, text)))
        e.shape = "topic:set" + (":empty" if text == "" else "")
        e.cover.append(("topic", "ok", _rk(r), "t" in c.flags))
        return e

    # ---- INVITE
    def do_invite(self, cid, cmd):
        e = Exp("INVITE", ("C09",))
        u = self.user_of(cid)
        cn, nick = cmd["chan"], cmd["nick"]
        c = self.chans.get(cn)
        if c is None:
            e.need("403", p0=u.nick, p1=cn)
            e.shape = "invite:nochan"
            return e
        if u.nick not in c.members:
            e.need("442", p0=u.nick, p1=cn)
            e.shape = "invite:outsider"
            e.cover.append(("invite", "outsider"))
            return e
        r = c.members[u.nick]
        if "i" in c.flags:
            e.props.add("C08")
        if "i" in c.flags and "o" not in r:
            if is_op(r):
                # founder / protected without the operator flag on +i: the statement says
                # "an operator"; whether higher ranks count is not fixed
                e.unspec_replies = True
            e.need("482", p0=u.nick, p1=cn)
            e.shape = "invite:lowrank"
            e.cover.append(("invite", "refused", _rk(r)))
            return e
        if nick in c.members:
            e.need("443", p0=u.nick, p1=nick, p2=cn)
            e.shape = "invite:present"
            return e
        t = self.users.get(nick)
        if t is None:
            e.need("401", p0=u.nick, p1=nick)
            e.shape = "invite:unknown"
            return e
        t.invited.add(cn)
        e.need("341", p0=u.nick, p1=nick, p2=cn)
        e.relays.append((self.owner[nick], u.source, "INVITE", (nick, cn)))
        e.shape = "invite:ok"
        e.cover.append(("invite", "ok", _rk(r), "i" in c.flags))
        return e

    # ---- MODE
    def do_mode(self, cid, cmd):
        if cmd["target"][:1] in "#&":
            return self._mode_chan(cid, cmd)
        return self._mode_user(cid, cmd)

    def _mode_chan(self, cid, cmd):
        e = Exp("MODE", ("C08",))
        u = self.user_of(cid)
        cn = cmd["target"]
        c = self.chans.get(cn)
        groups = cmd["modes"]  # [(modestring, [args])]
        if c is None:
            e.need("403", p0=u.nick, p1=cn)
            e.shape = "cmode:nochan"
            return e
        if u.nick not in c.members:
            e.need("442", p0=u.nick, p1=cn)
            e.shape = "cmode:outsider"
            e.cover.append(("cmode", "outsider"))
            return e
        ar = set(c.members[u.nick])  # rank at the start governs the whole command
        if not groups:
            e.props = {"C08", "C04"}
            e.query = _mode324_checker(cn, c)
            e.shape = "cmode:query"
            return e
        applied = []  # (sign, letter, arg or None, noop)
        refused = False
        listing = False
        # what a mode letter governs later is decided by other properties too: a wrongly stored list or flag
        # is their business as well (the model resynchronises afterwards, so it must be caught here)
        for ms, _a in groups:
            for ch in ms:
                if ch in "be":
                    e.props |= {"C07", "C10", "C14"}
                elif ch == "I":
                    e.props |= {"C07", "C14"}
                elif ch in "kli":
                    e.props |= {"C07"} | ({"C09"} if ch == "i" else set())
                elif ch in "mn":
                    e.props |= {"C10"}
                elif ch == "s":
                    e.props |= {"C10", "C12"}
                elif ch == "t":
                    e.props |= {"C09"}
                elif ch in RANKS:
                    e.props |= {"C09", "C10", "C01"}
        for ms, args in groups:
            it = iter(args)
            sign = None
            for ch in ms:
                if ch in "+-":
                    sign = ch
                    continue
                plus = sign == "+"
                if ch in "beI":
                    arg = next(it, None)
                    if arg is None:
                        listing = True
                        continue
                    if not is_halfop(ar):
                        refused = True
                        continue
                    mask = glob.complete(arg)
                    lst = {"b": c.ban, "e": c.exc, "I": c.invex}[ch]
                    noop = (mask in lst) == plus
                    if plus:
                        lst.add(mask)
                    else:
                        lst.discard(mask)
                    applied.append((sign or "-", ch, mask, noop))
                elif ch in RANKS:
                    arg = next(it, None)
                    allowed = {"q": "q" in ar, "a": is_protected(ar), "o": is_op(ar),
                               "h": is_op(ar), "v": is_halfop(ar)}[ch]
                    if not allowed:
                        refused = True
                    if arg is None:
                        e.unspec_state = e.unspec_relays = e.unspec_replies = True
                        continue
                    if arg not in c.members:
                        e.need("441", p0=u.nick, p1=arg, p2=cn)
                        continue
                    if not allowed:
                        e.cover.append(("cmode", "refused", _rk(ar), ch, sign, _rk(c.members[arg])))
                        continue
                    tr = c.members[arg]
                    noop = (ch in tr) == plus
                    e.cover.append(("cmode", "ok", _rk(ar), ch, sign, _rk(tr)))
                    if plus:
                        tr.add(ch)
                    else:
                        tr.discard(ch)
                    applied.append((sign or "-", ch, arg, noop))
                elif ch == "l":
                    if not is_halfop(ar):
                        refused = True
                        continue
                    if plus:
                        arg = next(it, None)
                        if arg is None:
                            e.unspec_state = e.unspec_relays = e.unspec_replies = True
                            continue
                        noop = c.limit == int(arg)
                        c.limit = int(arg)
                        applied.append(("+", "l", arg, noop))
                    else:
                        noop = c.limit is None
                        c.limit = None
                        applied.append(("-", "l", None, noop))
                elif ch == "k":
                    if not is_halfop(ar):
                        refused = True
                        continue
                    if plus:
                        arg = next(it, None)
                        if arg is None:
                            e.unspec_state = e.unspec_relays = e.unspec_replies = True
                            continue
                        noop = c.key == arg
                        c.key = arg
                        applied.append(("+", "k", arg, noop))
                    else:
                        noop = c.key is None
                        c.key = None
                        applied.append(("-", "k", None, noop))
                elif ch in "imtns":
                    if not is_halfop(ar):
                        refused = True
                        continue
                    noop = (ch in c.flags) == plus
                    if plus:
                        c.flags.add(ch)
                    else:
                        c.flags.discard(ch)
                    applied.append((sign or "-", ch, None, noop))
                    e.cover.append(("cmode", "flag", ch, sign, _rk(ar)))
        if refused:
            e.need("482", p0=u.nick, p1=cn)
            if not is_halfop(ar):
                e.cover.append(("cmode", "lowrank", _rk(ar)))
        elif not listing:
            e.forbid |= {"482", "442"}
        # announcement: one MODE line to every member whose change set equals `applied`
        # (no-op changes may be left out)
        if applied:
            e.relays.append(("@members", cn, u.source, [(s, l, a, n) for s, l, a, n in applied]))
        e.shape = "cmode:" + ("refused" if refused and not applied else
                              "partial" if refused else "listing" if listing and not applied
                              else "applied")
        return e

    def _mode_user(self, cid, cmd):
        e = Exp("MODE", ("C11", "C19"))
        u = self.user_of(cid)
        target = cmd["target"]
        groups = cmd["modes"]
        if target != u.nick:
            e.props.add("C02")  # a connection changes only the user it registered itself
            if target in self.users:
                e.need("502", p0=u.nick)
                e.cover.append(("umode", "foreign"))
            else:
                e.need("401", p0=u.nick, p1=target)
            e.shape = "umode:foreign"
            return e
        if not groups:
            e.need("221", p0=u.nick, p1="+" + "".join(l for l in "ioOrw" if l in u.modes))
            e.shape = "umode:query"
            return e
        changes = []
        for ms, _args in groups:
            sign = None
            for ch in ms:
                if ch in "+-":
                    sign = ch
                    continue
                plus = sign == "+"
                if ch in "iw":
                    if plus and ch not in u.modes:
                        u.modes.add(ch)
                        changes.append(("+", ch))
                    elif not plus and ch in u.modes:
                        u.modes.discard(ch)
                        changes.append(("-", ch))
                elif ch == "r":
                    if plus and "r" not in u.modes:
                        if u.cfg_registered:
                            u.modes.add("r")
                            changes.append(("+", "r"))
                        else:
                            e.need("481", p0=u.nick)
                    elif not plus and "r" in u.modes:
                        u.modes.discard("r")
                        changes.append(("-", "r"))
                        e.need("484", p0=u.nick)
                elif ch in "oO":
                    if plus:
                        # operator status comes only from OPER: never granted here
                        if ch not in u.modes:
                            e.cover.append(("umode", "+" + ch, u.nick in self.cfg.operators))
                        e.forbid.add("381")
                    elif ch in u.modes:
                        u.modes.discard(ch)
                        changes.append(("-", ch))
                        e.cover.append(("umode", "-" + ch))
        if changes:
            e.relays.append(("@umode", cid, u.source, u.nick, changes))
        e.shape = "umode:" + "".join(s + c for s, c in changes)
        e.cover.append(("umode", tuple(changes)))
        return e

    # ---- NICK
    def do_nick(self, cid, cmd):
        e = Exp("NICK", ("C15", "C02", "C04"))
        u = self.user_of(cid)
        new = cmd["nick"]
        if new == "" or any(ch.isspace() for ch in new):
            # not a nickname at all (empty / contains a blank): must be refused, nothing changes
            e.props |= {"C13"}
            e.unspec_replies = True
            e.shape = "nick:invalid"
            e.cover.append(("nick", "invalid"))
            return e
        if new == u.nick:
            e.shape = "nick:same"
            e.cover.append(("nick", "same"))
            return e
        if new in self.users:
            e.need("433", p0=u.nick, p1=new)
            e.shape = "nick:taken"
            e.cover.append(("nick", "taken"))
            return e
        old_source = u.source
        old = u.nick
        peers = set()
        for cn in u.channels:
            c = self.chans[cn]
            c.members[new] = c.members.pop(old)
            peers |= set(c.members)
        del self.users[old]
        u.nick = new
        self.users[new] = u
        self.owner[new] = self.owner.pop(old)
        self.conn[cid]["nick"] = new
        self.whowas[old] = self.whowas.get(old, 0) + 1
        peers.add(new)
        for n in self.users:
            r = (self.owner[n], old_source, "NICK", (new,))
            if n in peers:
                e.relays.append(r)
            else:
                e.relays_opt.append(r)
        e.shape = "nick:ok"
        e.cover.append(("nick", "ok", len(u.channels), "".join(sorted(u.modes)),
                        u.away is not None, bool(u.invited), new in self.whowas))
        return e

    # ---- PRIVMSG / NOTICE
    def do_privmsg(self, cid, cmd):
        return self._msg(cid, cmd, False)

    def do_notice(self, cid, cmd):
        return self._msg(cid, cmd, True)

    def _msg(self, cid, cmd, notice):
        verb = "NOTICE" if notice else "PRIVMSG"
        e = Exp(verb, ("C01", "C10", "C12"))
        u = self.user_of(cid)
        text = cmd["text"]
        if notice:
            e.only = set()
        if not all(valid_msg_target(t) for t in cmd["targets"]):
            # refused as a whole by the syntax check (ERROR line): no target accepts it
            e.unspec_replies = True
            e.only = None
            e.shape = verb.lower() + ":bad-target"
            e.cover.append((verb, "bad-target"))
            return e
        seen = set()
        kinds = []
        away_targets = set()
        for target in cmd["targets"]:
            if target in seen:
                kinds.append("dup")
                continue
            seen.add(target)
            pre, cn = split_status(target)
            if cn is not None:
                c = self.chans.get(cn)
                if c is None:
                    if not notice:
                        e.need("403", p0=u.nick, p1=cn)
                    kinds.append("nochan")
                    continue
                member = u.nick in c.members
                r = c.members.get(u.nick, set())
                if c.flags & set("nms") or c.ban:
                    e.props.add("C08")
                if c.ban or c.exc:
                    e.props.add("C14")
                ext_ok = member or not ({"n", "s"} & c.flags)
                ban_ok = not c.banned(u.source)
                mod_ok = "m" not in c.flags or (member and has_voice(r))
                vec = (member, has_voice(r), "n" in c.flags, "s" in c.flags, "m" in c.flags,
                       glob.any_match(c.ban, u.source), glob.any_match(c.exc, u.source))
                ok = ext_ok and ban_ok and mod_ok
                e.cover.append(("speak", verb, vec, ok))
                if not ok:
                    if not notice:
                        e.need("404", p0=u.nick, p1=cn)
                    kinds.append("refused")
                    continue
                if pre:
                    want = {PREFIX_INV[p] for p in pre}
                    rcv = [m for m, rk in c.members.items() if rk & want and m != u.nick]
                    kinds.append("status:" + "".join(sorted(want)) +
                                 (":multi" if any(len(c.members[m] & want) > 1 for m in rcv) else ""))
                else:
                    rcv = [m for m in c.members if m != u.nick]
                    kinds.append("chan" if member else "chan-outside")
                for m in rcv:
                    e.relays.append((self.owner[m], u.source, verb, (target, text)))
                e.cover.append(("audience", verb, bool(pre), min(len(rcv), 3), member))
            else:
                t = self.users.get(target)
                if t is None:
                    if not notice:
                        e.need("401", p0=u.nick, p1=target)
                    kinds.append("nonick")
                    continue
                r = (self.owner[target], u.source, verb, (target, text))
                if target == u.nick:
                    e.relays_opt.append(r)
                    kinds.append("self")
                else:
                    e.relays.append(r)
                    kinds.append("nick")
                if t.away is not None and not notice:
                    e.need("301", p0=u.nick, p1=target, p2=t.away)
                    kinds.append("away")
                    away_targets.add(target)
        e.query = _away_checker(away_targets)
        e.shape = verb.lower() + ":" + "+".join(sorted(set(kinds)))
        return e

    # ---- AWAY
    def do_away(self, cid, cmd):
        e = Exp("AWAY", ("C10",))
        u = self.user_of(cid)
        if cmd.get("text") is None:
            u.away = None
            e.need("305", p0=u.nick)
        else:
            u.away = cmd["text"]
            e.need("306", p0=u.nick)
            if cmd["text"] == "":
                e.unspec_state = True
        e.shape = "away"
        return e

    # ---- OPER
    def do_oper(self, cid, cmd):
        e = Exp("OPER", ("C11", "C19"))
        u = self.user_of(cid)
        oc = self.cfg.operators.get(cmd["name"])
        if oc is None:
            e.need("491", p0=u.nick)
            e.forbid.add("381")
            e.cover.append(("oper", "badname"))
            e.shape = "oper:badname"
        elif oc[0] != cmd["password"]:
            e.need("464", p0=u.nick)
            e.forbid.add("381")
            e.cover.append(("oper", "badpw"))
            e.shape = "oper:badpw"
        elif oc[1] is not None and not glob.match(oc[1], u.source):
            e.need("491", p0=u.nick)
            e.forbid.add("381")
            e.cover.append(("oper", "badmask"))
            e.shape = "oper:badmask"
        else:
            e.cover.append(("oper", "ok", "o" in u.modes))
            e.shape = "oper:ok" + (":again" if "o" in u.modes else "")
            u.modes.add("o")
            e.need("381", p0=u.nick)
        return e

    # ---- KILL
    def do_kill(self, cid, cmd):
        e = Exp("KILL", ("C11", "C06"))
        u = self.user_of(cid)
        nick = cmd["nick"]
        if not u.is_oper:
            e.need("481", p0=u.nick)
            e.shape = "kill:noprivs"
            e.cover.append(("kill", "noprivs", "O" in u.modes))
            return e
        if nick not in self.users:
            e.need("401", p0=u.nick, p1=nick)
            e.shape = "kill:unknown"
            return e
        vcid = self.remove_user(nick)
        e.closes.append(vcid)
        e.error_to[vcid] = u.nick if nick != u.nick else nick
        e.shape = "kill:ok" + (":self" if nick == u.nick else "")
        e.cover.append(("kill", "ok", nick == u.nick))
        return e

    # ---- WALLOPS
    def do_wallops(self, cid, cmd):
        e = Exp("WALLOPS", ("C11",))
        u = self.user_of(cid)
        if not u.is_any_oper:
            e.need("481", p0=u.nick)
            e.shape = "wallops:noprivs"
            e.cover.append(("wallops", "noprivs"))
            return e
        n = 0
        for t in self.users.values():
            if "w" in t.modes:
                e.relays.append((self.owner[t.nick], u.source, "WALLOPS", (cmd["text"],)))
                n += 1
        e.shape = "wallops:ok"
        e.cover.append(("wallops", "ok", min(n, 3), "w" in u.modes))
        return e

    # ---- STATS
    def do_stats(self, cid, cmd):
        e = Exp("STATS", ("C11",))
        u = self.user_of(cid)
        if not u.is_any_oper:
            e.need("481", p0=u.nick)
            e.forbid |= {"219", "242", "212"}
            e.cover.append(("stats", "noprivs"))
        else:
            e.need("219", p0=u.nick)
            e.forbid.add("481")
            e.cover.append(("stats", "ok"))
        e.shape = "stats"
        return e

    # ---- DIE / SQUIT (unprivileged only; the privileged case ends the episode, see engine)
    def do_die(self, cid, cmd):
        e = Exp("DIE", ("C11",))
        u = self.user_of(cid)
        if not u.is_oper:
            e.need("483", p0=u.nick)
            e.cover.append(("die", "noprivs", "O" in u.modes))
            e.shape = "die:noprivs"
        else:
            e.shape = "die:ok"
            e.cover.append(("die", "ok"))
            e.closes = list(self.conn)
        return e

    def do_squit(self, cid, cmd):
        e = Exp("SQUIT", ("C11",))
        u = self.user_of(cid)
        if cmd["server"] != self.cfg.name:
            e.need("400", p0=u.nick)
            e.shape = "squit:other"
        elif not u.is_oper:
            e.need("483", p0=u.nick)
            e.cover.append(("squit", "noprivs"))
            e.shape = "squit:noprivs"
        else:
            e.shape = "squit:ok"
            e.closes = list(self.conn)
        return e

    # ---- QUIT
    def do_quit(self, cid, cmd):
        e = Exp("QUIT", ("C06", "C16", "C19"))
        u = self.user_of(cid)
        self.remove_user(u.nick)
        e.closes.append(cid)
        e.shape = "quit"
        return e

    # ------------------------------------------------------------ queries
    def do_names(self, cid, cmd):
        e = Exp("NAMES", ("C04", "C12", "C08"))
        u = self.user_of(cid)
        multi = self.conn[cid]["multi_prefix"]
        checks = []
        for cn in cmd.get("chans") or []:
            c = self.chans.get(cn)
            lo, hi = self._names_bounds(u, c, multi)
            checks.append(_names_checker(cn, lo, hi, "names"))
            e.need("366", p0=u.nick, p1=cn)
            if c is not None:
                e.cover.append(("names", u.nick in c.members, "s" in c.flags,
                                any("i" in self.users[m].modes for m in c.members)))
        if not cmd.get("chans"):
            for cn, c in self.chans.items():
                lo, hi = self._names_bounds(u, c, multi)
                checks.append(_names_checker(cn, lo, hi, "names*"))
            checks.append(_names_only(set(self.chans)))
            e.need("366", p0=u.nick, p1="*")
        e.query = _all(checks)
        e.shape = "names"
        return e

    def _names_bounds(self, viewer, c, multi):
        if c is None:
            return set(), set()
        member = viewer.nick in c.members
        if "s" in c.flags and not member:
            return set(), set()
        lo, hi = set(), set()
        for m, r in c.members.items():
            t = self.users[m]
            item = self.prefixes(r, multi) + m
            if member or "i" not in t.modes:
                lo.add(item)
                hi.add(item)
            elif self.share_channel(viewer, t):
                hi.add(item)
        return lo, hi

    def do_who(self, cid, cmd):
        e = Exp("WHO", ("C04", "C12", "C14", "C08"))
        u = self.user_of(cid)
        mask = cmd["mask"]
        multi = self.conn[cid]["multi_prefix"]
        lo, hi = {}, {}

        def visible(t):
            return "i" not in t.modes or self.share_channel(u, t)

        def put(nick, item, t):
            if visible(t):
                lo[nick] = hi[nick] = item
            elif t.nick == u.nick:
                hi[nick] = item  # seeing oneself is fine either way

        def flags(t, rk):
            f = ("G" if t.away is not None else "H") + ("*" if t.is_any_oper else "")
            if rk is not None:
                f += self.prefixes(rk, multi)
            return f

        if "*" in mask or "?" in mask:
            for t in self.users.values():
                if glob.match(mask, t.nick) or glob.match(mask, t.source) or glob.match(mask, t.realname):
                    put(t.nick, ("*", flags(t, None)), t)
            e.cover.append(("who", "mask", len(lo) > 0))
        elif mask[:1] in "#&":
            c = self.chans.get(mask)
            if c is not None:
                member = u.nick in c.members
                if member or "s" not in c.flags:
                    for m, rk in c.members.items():
                        t = self.users[m]
                        put(m, (mask, flags(t, rk)), t)
                e.cover.append(("who", "chan", member, "s" in c.flags))
        else:
            t = self.users.get(mask)
            if t is not None:
                put(mask, ("*", flags(t, None)), t)
            e.cover.append(("who", "nick", t is not None))
        e.need("315", p0=u.nick, p1=mask)
        e.query = _who_checker(lo, hi)
        e.shape = "who"
        return e

    def do_whois(self, cid, cmd):
        e = Exp("WHOIS", ("C04", "C12", "C14", "C11"))
        u = self.user_of(cid)
        multi = self.conn[cid]["multi_prefix"]
        nicks = set()
        for m in cmd["masks"]:
            if "*" in m or "?" in m:
                nicks |= {n for n in self.users if glob.match(m, n)}
            elif m in self.users:
                nicks.add(m)
        want = {}
        for n in nicks:
            t = self.users[n]
            if "i" in t.modes and not self.share_channel(u, t) and n != u.nick:
                # hidden from a client sharing no channel with it
                continue
            lo, hi = set(), set()
            for cn in t.channels:
                c = self.chans[cn]
                item = self.prefixes(c.members[n], multi) + cn
                if "s" not in c.flags:
                    lo.add(item)
                    hi.add(item)
                elif u.nick in c.members:
                    hi.add(item)
            want[n] = (lo, hi, t.is_any_oper, t.user, t.host, t.realname)
        self_inv = [n for n in nicks if n == u.nick and "i" in self.users[n].modes
                    and not self.users[n].channels]
        e.query = _whois_checker(want, optional=set(self_inv))
        e.need("318", p0=u.nick)
        e.cover.append(("whois", len(want), any("*" in m or "?" in m for m in cmd["masks"])))
        e.shape = "whois"
        return e

    def do_list(self, cid, cmd):
        e = Exp("LIST", ("C12", "C09", "C16"))
        u = self.user_of(cid)
        lo, hi = {}, {}
        names = cmd.get("chans") or list(self.chans)
        for cn in names:
            c = self.chans.get(cn)
            if c is None:
                continue
            item = (str(len(c.members)), c.topic or "")
            if "s" not in c.flags:
                lo[cn] = hi[cn] = item
            elif u.nick in c.members:
                hi[cn] = item
        e.need("323", p0=u.nick)
        e.query = _list_checker(lo, hi)
        e.shape = "list"
        return e

    def do_lusers(self, cid, cmd):
        e = Exp("LUSERS", ("C19",))
        u = self.user_of(cid)
        self._lusers_need(e, u.nick)
        inv = sum(1 for x in self.users.values() if "i" in x.modes)
        ops = sum(1 for x in self.users.values() if x.is_any_oper)
        e.cover.append(("lusers", len(self.users), inv, ops, len(self.chans), self.max_users))
        e.shape = "lusers"
        return e

    def do_ison(self, cid, cmd):
        e = Exp("ISON", ("C19",))
        u = self.user_of(cid)
        want = [n for n in cmd["nicks"] if n in self.users]
        e.query = _ison_checker(want)
        e.cover.append(("ison", len(want), len(cmd["nicks"]) - len(want)))
        e.shape = "ison"
        return e

    def do_userhost(self, cid, cmd):
        e = Exp("USERHOST", ("C19", "C11"))
        want = []
        for n in cmd["nicks"]:
            t = self.users.get(n)
            if t is not None:
                want.append("%s%s=%s~%s@%s" % (n, "*" if t.is_any_oper else "",
                                                "-" if t.away is not None else "+", t.user, t.host))
                e.cover.append(("userhost", t.is_any_oper, t.away is not None))
        e.query = _userhost_checker(want)
        e.shape = "userhost"
        return e

    def do_whowas(self, cid, cmd):
        e = Exp("WHOWAS", ("C06", "C15"))
        u = self.user_of(cid)
        n = cmd["nick"]
        cnt = self.whowas.get(n, 0)
        want = cnt if not cmd.get("count") else min(cnt, cmd["count"])
        if cnt:
            e.query = _count_checker("314", want, "whowas")
        if cnt == 0:
            e.need("406", p0=u.nick, p1=n)
            e.forbid.add("314")
        else:
            e.need("314", p0=u.nick, p1=n)
            e.forbid.add("406")
        e.need("369", p0=u.nick, p1=n)
        e.cover.append(("whowas", min(cnt, 3)))
        e.shape = "whowas"
        return e

    def do_chanlist(self, cid, cmd):
        """MODE #c +b / +e / +I without argument: list query"""
        e = Exp("MODE", ("C08", "C14"))
        u = self.user_of(cid)
        cn, letter = cmd["chan"], cmd["letter"]
        c = self.chans.get(cn)
        if c is None:
            e.need("403", p0=u.nick, p1=cn)
        elif u.nick not in c.members:
            e.need("442", p0=u.nick, p1=cn)
        else:
            code, end = {"b": ("367", "368"), "e": ("348", "349"), "I": ("346", "347")}[letter]
            masks = {"b": c.ban, "e": c.exc, "I": c.invex}[letter]
            e.need(end, p0=u.nick, p1=cn)
            e.query = _masklist_checker(code, cn, set(masks))
            e.cover.append(("chanlist", letter, min(len(masks), 3)))
        e.shape = "chanlist"
        return e


# ---------------------------------------------------------------- helpers
def _rk(r):
    return "".join(x for x in RANKS if x in r) or "-"


def split_status(target):
    """'@+#chan' -> ('@+', '#chan'); plain nick -> ('', None).  '&' is both the protected prefix
    and the local channel sigil: the last '&' before a non-prefix character starts the name."""
    i = 0
    n = len(target)
    while i < n and target[i] in "~&@%+":
        i += 1
    if i < n and target[i] == "#":
        if i + 1 == n:
            return "", None  # a bare '#' after prefixes names no channel: the whole word is taken as a nickname
        return target[:i], target[i:]
    if i > 0 and target[i - 1] == "&" and i < n:
        return target[:i - 1], target[i - 1:]
    return "", None


def valid_msg_target(t):
    """the server's syntax check of one PRIVMSG/NOTICE target (a failing target refuses the whole command):
    a user name (no blank, '.', ':', ',', no leading channel sigil) or status prefixes followed by a channel
    name of at least two characters"""
    if t and not any(ch.isspace() for ch in t) and t[0] not in "#&" and not any(ch in t for ch in ".:,"):
        return True
    if not t or ":" in t or "," in t:
        return False
    last_amp = False
    for i, ch in enumerate(t):
        if ch == "#":
            return i + 1 < len(t)
        if ch not in "~@%+&":
            return last_amp
        last_amp = ch == "&"
    return False


def _chain(a, b):
    if a is None:
        return b
    return lambda lines: a(lines) + b(lines)


def _all(fs):
    fs = [f for f in fs if f is not None]
    return lambda lines: [v for f in fs for v in f(lines)]


def _names_in(lines, cn):
    names = set()
    for m in lines:
        if m.verb == "353" and len(m.params) >= 4 and m.params[2] == cn:
            names |= set(m.params[3].split())
    return names


def _names_checker(cn, lo, hi, tag):
    def f(lines):
        got = _names_in(lines, cn)
        out = []
        listed = [x for m in lines if m.verb == "353" and len(m.params) >= 4 and m.params[2] == cn
                  for x in m.params[3].split()]
        if len(listed) != len(set(listed)):
            out.append("%s %s: a name is listed twice: %s" % (tag, cn, sorted(x for x in set(listed) if listed.count(x) > 1)))
        if not lo <= got:
            out.append("%s %s: missing %s" % (tag, cn, sorted(lo - got)))
        if not got <= hi:
            out.append("%s %s: unexpected %s" % (tag, cn, sorted(got - hi)))
        return out
    return f


def _names_only(chans):
    def f(lines):
        out = []
        for m in lines:
            if m.verb == "353" and len(m.params) >= 3 and m.params[2] not in chans:
                out.append("names: unknown channel %s" % m.params[2])
        return out
    return f


def _join_error_checker(cn, errs):
    def f(lines):
        got = {m.verb for m in lines if m.verb in ("475", "474", "473", "471", "405")
               and len(m.params) >= 2 and m.params[1] == cn}
        out = []
        if not got:
            out.append("join %s refused without any of %s" % (cn, errs))
        if not got <= set(errs):
            out.append("join %s: error %s for a condition that holds (failing: %s)"
                       % (cn, sorted(got - set(errs)), errs))
        return out
    return f


def parse_modeline(params):
    """['+im-s', '+b', 'mask', '+l', '5'] -> [(sign, letter, arg)]  (multi-modestring grammar:
    list/rank/k+/l+ letters take the next parameter)"""
    out = []
    i = 0
    while i < len(params):
        ms = params[i]
        i += 1
        sign = "+"
        for ch in ms:
            if ch in "+-":
                sign = ch
                continue
            arg = None
            if ch in "beIqaohv" or (ch in "kl" and sign == "+"):
                if i < len(params):
                    arg = params[i]
                    i += 1
            out.append((sign, ch, arg))
    return out


def _mode324_checker(cn, c):
    flags = set(c.flags)
    key, limit = c.key, c.limit
    lists = {"b": set(c.ban), "e": set(c.exc), "I": set(c.invex)}
    ranks = {r: {m for m, rk in c.members.items() if r in rk} for r in RANKS}

    def f(lines):
        out = []
        l = [m for m in lines if m.verb == "324" and len(m.params) >= 3 and m.params[1] == cn]
        if not l:
            return ["324 for %s missing" % cn]
        p = l[0].params[2:]
        ms = p[0]
        gotflags = set(ms) - set("+kl")
        if gotflags != flags:
            out.append("324 flags %s != %s" % (sorted(gotflags), sorted(flags)))
        if ("k" in ms) != (key is not None):
            out.append("324 key presence mismatch")
        if ("l" in ms) != (limit is not None):
            out.append("324 limit presence mismatch")
        rest = p[1:]
        if key is not None and rest[:1] != [key]:
            out.append("324 key %r != %r" % (rest[:1], key))
        if key is not None:
            rest = rest[1:]
        if limit is not None and rest[:1] != [str(limit)]:
            out.append("324 limit %r != %r" % (rest[:1], limit))
        if limit is not None:
            rest = rest[1:]
        got = parse_modeline(rest)
        for letter, want in list(lists.items()) + list(ranks.items()):
            g = {a for s, l_, a in got if l_ == letter and s == "+"}
            if g and g != want:
                out.append("324 +%s %s != %s" % (letter, sorted(g), sorted(want)))
        return out
    return f


def _who_checker(lo, hi):
    def f(lines):
        out = []
        got = {}
        for m in lines:
            if m.verb == "352" and len(m.params) >= 7:
                if m.params[5] in got:
                    out.append("who: %s listed twice" % m.params[5])
                got[m.params[5]] = (m.params[1], m.params[6])
        for n, v in lo.items():
            if n not in got:
                out.append("who: %s missing" % n)
            elif got[n] != v:
                out.append("who: %s shown as %s, expected %s" % (n, got[n], v))
        for n in got:
            if n not in hi:
                out.append("who: %s must not be shown" % n)
        return out
    return f


def _whois_checker(want, optional=()):
    def f(lines):
        out = []
        got = {}
        for m in lines:
            if m.verb == "311" and len(m.params) >= 6:
                got.setdefault(m.params[1], {"chans": set(), "oper": False})
                got[m.params[1]]["u"] = (m.params[2], m.params[3], m.params[5])
            elif m.verb == "319" and len(m.params) >= 3:
                got.setdefault(m.params[1], {"chans": set(), "oper": False})
                got[m.params[1]]["chans"] |= set(m.params[2].split())
            elif m.verb == "313" and len(m.params) >= 2:
                got.setdefault(m.params[1], {"chans": set(), "oper": False})
                got[m.params[1]]["oper"] = True
        for n, (lo, hi, oper, user, host, real) in want.items():
            if n not in got or "u" not in got[n]:
                if n not in optional:
                    out.append("whois: %s missing" % n)
                continue
            g = got[n]
            if g["u"] != ("~" + user, host, real):
                out.append("whois: %s identity %s" % (n, g["u"]))
            if not lo <= g["chans"]:
                out.append("whois: %s channels missing %s" % (n, sorted(lo - g["chans"])))
            if not g["chans"] <= hi:
                out.append("whois: %s channels must not be shown %s" % (n, sorted(g["chans"] - hi)))
            if g["oper"] != oper:
                out.append("whois: %s operator flag %s, expected %s" % (n, g["oper"], oper))
        for n in got:
            if n not in want:
                out.append("whois: %s must not be shown" % n)
        return out
    return f


def _list_checker(lo, hi):
    def f(lines):
        out = []
        got = {}
        for m in lines:
            if m.verb == "322" and len(m.params) >= 4:
                if m.params[1] in got:
                    out.append("list: %s listed twice" % m.params[1])
                got[m.params[1]] = (m.params[2], m.params[3])
        for n, v in lo.items():
            if n not in got:
                out.append("list: %s missing" % n)
            elif got[n] != v:
                out.append("list: %s shown as %s, expected %s" % (n, got[n], v))
        for n in got:
            if n not in hi:
                out.append("list: %s must not be shown" % n)
            elif n not in lo and got[n] != hi[n]:
                out.append("list: %s shown as %s, expected %s" % (n, got[n], hi[n]))
        return out
    return f


def _ison_checker(want):
    def f(lines):
        got = []
        seen = False
        for m in lines:
            if m.verb == "303":
                seen = True
                got += m.params[-1].split()
        if not seen:
            return ["ison: no 303"]
        if sorted(got) != sorted(want):
            return ["ison: %s, expected %s" % (sorted(got), sorted(want))]
        return []
    return f


def _userhost_checker(want):
    def f(lines):
        got = []
        seen = False
        for m in lines:
            if m.verb == "302":
                seen = True
                got += m.params[-1].split()
        if not seen:
            return ["userhost: no 302"]
        if sorted(got) != sorted(want):
            return ["userhost: %s, expected %s" % (sorted(got), sorted(want))]
        return []
    return f


def _masklist_checker(code, cn, masks):
    def f(lines):
        got = {m.params[2] for m in lines if m.verb == code and len(m.params) >= 3
               and m.params[1] == cn}
        if got != masks:
            return ["%s list of %s: %s, expected %s" % (code, cn, sorted(got), sorted(masks))]
        return []
    return f


def _away_checker(away_targets):
    def f(lines):
        got = {m.params[1] for m in lines if m.verb == "301" and len(m.params) >= 2}
        extra = got - away_targets
        if extra:
            return ["away: 301 for %s who is not away (or NOTICE answered)" % sorted(extra)]
        return []
    return f


def _count_checker(code, want, tag):
    def f(lines):
        n = sum(1 for m in lines if m.verb == code)
        if n != want:
            return ["%s: %d %s entries, expected %d" % (tag, n, code, want)]
        return []
    return f
