"""Episode runner for the sequential differential engine (E1) and the parallel driver."""
import collections
import json
import multiprocessing
import os
import random
import time
import traceback

from . import gen, model as M, sut, world as W


def base_cfg(binary, rng=None, max_joins=None, password=None, default_modes=(), preconf=True,
             extra_channels=()):
    """-> (server cfg dict for sut.make_config, model Config)"""
    ops = []
    mops = {}
    for name, pw in gen.OPER_PW.items():
        ops.append({"name": name, "password": sut.password_hash(binary, pw), "mask": gen.OPER_MASK[name]})
        mops[name] = (pw, gen.OPER_MASK[name])
    channels = []
    if preconf:
        channels.append({"name": "#pre", "topic": "pre topic",
                         "modes": {"no_external_messages": True, "protected_topic": True,
                                   "operators": ["bo"], "voices": ["cy", "bo"], "founders": ["root"]}})
    channels += list(extra_channels)
    dm = {k: (l in default_modes) for k, l in (("invisible", "i"), ("oper", "o"), ("local_oper", "O"),
                                                ("registered", "r"), ("wallops", "w"))}
    scfg = dict(operators=ops, channels=channels, max_joins=max_joins, default_user_modes=dm,
                password=sut.password_hash(binary, password) if password else None)
    mcfg = M.Config(max_joins=max_joins, password=password, default_modes=default_modes,
                    operators=mops, channels=channels)
    return scfg, mcfg


def run_episode(args):
    """one episode on a fresh server; returns a plain dict (picklable)"""
    (binary, hooks, seed, steps, profile) = args
    rng = random.Random(seed)
    t0 = time.time()
    res = dict(seed=seed, steps=0, violations=[], inconclusive=None, cover={}, shapes={},
               deliveries=0, snapshots=0, history=None, panics=[], profile=profile.get("name"))
    variants = profile.get("cfg_variants") or [{}]
    var = dict(rng.choice(variants))
    scfg, mcfg = base_cfg(binary, **var)
    srv = sut.Server(binary, scfg, hooks=hooks)
    w = None
    try:
        srv.start()
        w = W.World(srv, mcfg)
        w.start(password=var.get("password"))
        g = gen.Gen(rng.randrange(1 << 30), w, weights=profile.get("weights"),
                    max_clients=profile.get("max_clients", 5),
                    hostile_masks=profile.get("hostile_masks", True),
                    endings=profile.get("endings"), server_password=var.get("password"),
                    nicks=profile.get("nicks"), multi_prefix_rate=profile.get("mp_rate", 0.3))
        stop_on = profile.get("stop_on_violation", True)
        known = set(profile.get("known_signatures", ()))
        for i in range(steps):
            a = g.next()
            if a[0] == "connect":
                v = w.connect(**a[1])
            elif a[0] == "act":
                v = w.act(a[1], a[2])
            else:
                v = w.end_client(a[1], a[2])
            res["steps"] += 1
            if not srv.alive():
                res["server_died"] = True
                break
            if w.dead:
                break
            if v and stop_on and any(x.signature not in known for x in v):
                break
    except W.Inconclusive as ex:
        res["inconclusive"] = str(ex)
    except sut.BuildError:
        raise
    except Exception as ex:  # harness error: never a violation
        res["inconclusive"] = "harness error: %r\n%s" % (ex, traceback.format_exc()[-1500:])
    finally:
        if w is not None:
            res["violations"] = [dict(rule=v.rule, props=list(v.props), signature=v.signature,
                                      detail=v.detail, step=v.step) for v in w.violations]
            res["cover"] = {repr(k): n for k, n in w.cover.items()}
            res["shapes"] = dict(w.shapes)
            res["deliveries"] = w.deliveries_checked
            res["snapshots"] = w.snapshots
            if w.violations or res["inconclusive"]:
                res["history"] = w.history[-400:]
                res["transcripts"] = {str(cid): c.transcript[-60:] for cid, c in w.clients.items()}
            w.close()
        time.sleep(0.02)
        p, aborts = srv.panics()
        res["panics"] = [list(x) for x in p][:10]
        res["aborts"] = [[a[0], list(a[1]) if a[1] else None] for a in aborts][:10]
        if res["inconclusive"] and not srv.alive():
            res["server_output"] = srv.output()[-1500:]
        srv.stop()
    res["wall"] = time.time() - t0
    return res


def run_many(binary, hooks, seeds, steps, profile, workers=None, budget_s=None):
    """run episodes in parallel; returns list of results (stops handing out work after budget)"""
    workers = workers or min(16, os.cpu_count() or 4)
    args = [(binary, hooks, s, steps, profile) for s in seeds]
    out = []
    t0 = time.time()
    with multiprocessing.Pool(workers) as pool:
        it = pool.imap_unordered(run_episode, args)
        for r in it:
            out.append(r)
            if budget_s is not None and time.time() - t0 > budget_s:
                pool.terminate()
                break
    return out


def merge(results):
    cover = collections.Counter()
    shapes = collections.Counter()
    tot = dict(steps=0, deliveries=0, snapshots=0, episodes=len(results), inconclusive=0)
    viol = []
    for r in results:
        tot["steps"] += r["steps"]
        tot["deliveries"] += r["deliveries"]
        tot["snapshots"] += r["snapshots"]
        if r["inconclusive"]:
            tot["inconclusive"] += 1
        cover.update(r["cover"])
        shapes.update(r["shapes"])
        for v in r["violations"]:
            viol.append((r["seed"], v))
    return tot, cover, shapes, viol


if __name__ == "__main__":
    import sys
    b, hooks = sut.build()
    seed = int(sys.argv[1]) if len(sys.argv) > 1 else 1
    n = int(sys.argv[2]) if len(sys.argv) > 2 else 1
    steps = int(sys.argv[3]) if len(sys.argv) > 3 else 100
    prof = {"name": "default", "hostile_masks": False}
    if n == 1:
        r = run_episode((b, hooks, seed, steps, prof))
        print(json.dumps({k: v for k, v in r.items() if k not in ("cover", "transcripts")}, indent=1)[:6000])
    else:
        rs = run_many(b, hooks, range(seed, seed + n), steps, prof)
        tot, cover, shapes, viol = merge(rs)
        print(tot, len(cover))
        c = collections.Counter(v["signature"] for _, v in viol)
        for s, k in c.most_common(40):
            print(k, s)
        for r in rs:
            if r["inconclusive"]:
                print("INC", r["seed"], r["inconclusive"][:300])
