"""Episode runner for the sequential differential engine (E1) and the parallel driver."""
import collections
import json
import multiprocessing
import os
import random
import time
import traceback

from . import gen, model as M, sut, world as W


def base_cfg(binary, rng=None, max_joins=None, password=None, default_modes=(), preconf=True,
             extra_channels=(), oper_masks=None, reg_users=()):
    """-> (server cfg dict for sut.make_config, model Config)"""
    ops = []
    mops = {}
    masks = dict(gen.OPER_MASK)
    masks.update(oper_masks or {})
    for name, pw in gen.OPER_PW.items():
        ops.append({"name": name, "password": sut.password_hash(binary, pw), "mask": masks[name]})
        mops[name] = (pw, masks[name])
    channels = []
    if preconf:
        channels.append({"name": "#pre", "topic": "pre topic",
                         "modes": {"no_external_messages": True, "protected_topic": True,
                                   "operators": ["bo"], "voices": ["cy", "bo"], "founders": ["root"]}})
    channels += list(extra_channels)
    dm = {k: (l in default_modes) for k, l in (("invisible", "i"), ("oper", "o"), ("local_oper", "O"),
                                                ("registered", "r"), ("wallops", "w"))}
    # predefined users without own password or mask: whoever gives that user name is a registered (+r) user
    users = [{"name": n, "nick": n + "-nick"} for n in reg_users]
    # accounts nobody on this host can log in to (mask on another network): attempts are refused and leave no trace
    masked = {"mk1": "*!*@10.*", "mk2": "nobody*!*@*"} if reg_users else {}
    users += [{"name": n, "nick": n + "-nick", "mask": m} for n, m in masked.items()]
    scfg = dict(operators=ops, channels=channels, max_joins=max_joins, default_user_modes=dm, users=users,
                password=sut.password_hash(binary, password) if password else None)
    mcfg = M.Config(max_joins=max_joins, password=password, default_modes=default_modes,
                    operators=mops, channels=channels, users=dict({n: (None, None) for n in reg_users}, **{n: (None, m) for n, m in masked.items()}))
    return scfg, mcfg


COMMON_VARIANTS = [
    {"max_joins": 1}, {"max_joins": 2}, {"max_joins": 3}, {"default_modes": "i"}, {"default_modes": "w"},
    {"default_modes": "O"}, {"default_modes": "iw"}, {"default_modes": "o"}, {"reg_users": ["cy", "rt", "bob"]},
    {"default_modes": "r", "reg_users": ["al"]}, {"preconf": False}, {"max_joins": 2, "default_modes": "i"},
    {"oper_masks": {"adm": "a*!*@*", "root": "*!~r?@*"}},
    # lists that come from the configuration, not from MODE
    {"extra_channels": [{"name": "#p1", "topic": "configured lists",
                         "modes": {"ban": ["al!*@*", "*!~bob@*", "Al!*@*"], "exception": ["*!*@10.*", "cy!*@*"],
                                   "invite_exception": ["di!*@*"], "voices": ["ed"],
                                   # somebody has to be able to edit the configured lists
                                   "operators": ["al", "bo"], "half_operators": ["cy"]}}]},
    {"extra_channels": [{"name": "#p1", "modes": {"ban": ["*!*@127.0.0.1"], "exception": ["bo!*@*", "root!*@*"],
                                                   "moderated": True, "voices": ["bo", "al"], "founders": ["root"],
                                                   "operators": ["al"]}}]},
]


def c16_variant(rng):
    """random configuration of 0-3 predefined channels with random subsets of attributes"""
    chans = []
    names = rng.sample(["#p1", "#p2", "#x", "&w", "#y"], rng.choice([0, 1, 1, 2, 3]))
    for n in names:
        m = {}
        for k in ("invite_only", "moderated", "secret", "protected_topic", "no_external_messages"):
            if rng.random() < 0.3:
                m[k] = True
        if rng.random() < 0.3:
            m["key"] = rng.choice(gen.KEYS)
        if rng.random() < 0.3:
            m["client_limit"] = rng.choice([1, 2, 3, 10])
        for k in ("ban", "exception", "invite_exception"):
            if rng.random() < 0.3:
                m[k] = rng.sample(["al!*@*", "*!~bob@*", "*!*@127.0.0.1", "cy!*@*", "*!*@10.*"], rng.choice([1, 2]))
        for k in ("founders", "protecteds", "operators", "half_operators", "voices"):
            if rng.random() < 0.35:
                m[k] = rng.sample(["al", "bo", "cy", "di", "root"], rng.choice([1, 2]))
        c = {"name": n, "modes": m}
        if rng.random() < 0.5:
            c["topic"] = "topic of " + n
        chans.append(c)
    return dict(preconf=rng.random() < 0.5, extra_channels=chans,
                max_joins=rng.choice([None, None, 2, 3]))


def run_episode(args):
    """one episode on a fresh server; returns a plain dict (picklable)"""
    (binary, hooks, seed, steps, profile) = args
    rng = random.Random(seed)
    t0 = time.time()
    res = dict(seed=seed, steps=0, violations=[], inconclusive=None, cover={}, shapes={},
               deliveries=0, snapshots=0, history=None, panics=[], profile=profile.get("name"))
    variants = profile.get("cfg_variants") or [{}]
    if variants == "c16":
        var = c16_variant(rng)
    elif profile.get("common_variants", True) and rng.random() < 0.2:
        # a fifth of the episodes of every profile run under a configuration from the common pool: what depends on a
        # setting (quota, default modes, predefined users, no predefined channel) is met by every property's workload
        var = dict(rng.choice(COMMON_VARIANTS))
    else:
        var = dict(rng.choice(variants))
    res["variant_id"] = repr(sorted((k, repr(v)) for k, v in var.items()))
    scfg, mcfg = base_cfg(binary, **var)
    use_tls = bool(profile.get("tls"))
    if use_tls:
        import os
        scfg["tls"] = (os.path.join(sut.REPO, "test_data", "cert.crt"), os.path.join(sut.REPO, "test_data", "cert_key.crt"))
    srv = sut.Server(binary, scfg, hooks=hooks, tls=use_tls)
    w = None
    try:
        srv.start()
        w = W.World(srv, mcfg, tls=use_tls)
        w.start(password=var.get("password"))
        g = gen.Gen(rng.randrange(1 << 30), w, weights=profile.get("weights"),
                    max_clients=profile.get("max_clients", 5),
                    hostile_masks=profile.get("hostile_masks", True),
                    endings=profile.get("endings"), server_password=var.get("password"),
                    nicks=profile.get("nicks"), multi_prefix_rate=profile.get("mp_rate", 0.3),
                    mode_weights=profile.get("mode_weights"),
                    invalid_nicks=profile.get("invalid_nicks", False),
                    empty_text=profile.get("empty_text", 0.0))
        g.boundary_rate = profile.get("boundary_rate", g.boundary_rate)
        w.serial_noise = random.Random(seed ^ 0x5EA1) if profile.get("serial_noise") else None
        w.forge = random.Random(seed ^ 0xF06E) if profile.get("forge_prefix") else None
        stop_on = profile.get("stop_on_violation", True)
        known = set(profile.get("known_signatures", ()))
        stop_props = set(profile["stop_props"]) if profile.get("stop_props") else None
        for i in range(steps):
            a = g.next()
            if a[0] == "connect":
                v = w.connect(**a[1])
            elif a[0] == "act":
                v = w.act(a[1], a[2])
            elif a[0] == "half_open":
                v = w.half_open(a[1], a[2])
            elif a[0] == "half_complete":
                v = w.half_complete(a[1], a[2])
            elif a[0] == "half_probe":
                v = w.half_probe(a[1], a[2])
            else:
                v = w.end_client(a[1], a[2])
            res["steps"] += 1
            if not srv.alive():
                res["server_died"] = True
                break
            if w.dead:
                break
            if v and stop_on and any(x.signature not in known and
                                     (stop_props is None or set(x.props) & stop_props) for x in v):
                break
        if profile.get("final_die") and not w.dead and not w.violations and srv.alive():
            live = g.live()
            if live:
                cid = rng.choice(live)
                if not w.model.user_of(cid).is_oper:
                    w.act(cid, {"verb": "OPER", "name": "root", "password": gen.OPER_PW["root"]})
                if not w.violations and w.model.user_of(cid).is_oper:
                    w.act_die(cid, rng.choice([{"verb": "DIE"},
                                               {"verb": "SQUIT", "server": mcfg.name, "comment": "x"}]))
                    res["steps"] += 1
    except W.Inconclusive as ex:
        res["inconclusive"] = str(ex)
    except sut.BuildError:
        raise
    except Exception as ex:  # harness error: never a violation
        res["inconclusive"] = "harness error: %r\n%s" % (ex, traceback.format_exc()[-1500:])
    finally:
        if w is not None:
            res["violations"] = [dict(rule=v.rule, props=list(v.props), signature=v.signature,
                                      detail=v.detail, step=v.step) for v in w.violations]
            res["cover"] = {repr(k): n for k, n in w.cover.items()}
            res["shapes"] = dict(w.shapes)
            res["deliveries"] = w.deliveries_checked
            res["snapshots"] = w.snapshots
            res["tail"] = w.history[-8:]
            if profile.get("keep_actions"):
                res["actions"] = w.actions
                res["variant"] = var
            res["noise"] = dict(w.noise_kinds)
            res["derived_checks"] = w.derived_checks
            if w.violations or res["inconclusive"]:
                res["history"] = w.history[-400:]
                res["transcripts"] = {str(cid): c.transcript[-60:] for cid, c in w.clients.items()}
            w.close()
        time.sleep(0.02)
        p, aborts = srv.panics()
        res["panics"] = [list(x) for x in p][:10]
        res["aborts"] = [[a[0], list(a[1]) if a[1] else None] for a in aborts][:10]
        if res["inconclusive"] and not srv.alive():
            res["server_output"] = srv.output()[-1500:]
        srv.stop()
    res["wall"] = time.time() - t0
    return res


def run_many(binary, hooks, seeds, steps, profile, workers=None, budget_s=None):
    """run episodes in parallel; returns list of results (stops handing out work after budget)"""
    workers = workers or min(16, os.cpu_count() or 4)
    args = [(binary, hooks, s, steps, profile) for s in seeds]
    out = []
    t0 = time.time()
    with multiprocessing.Pool(workers) as pool:
        it = pool.imap_unordered(run_episode, args)
        for r in it:
            out.append(r)
            if budget_s is not None and time.time() - t0 > budget_s:
                pool.terminate()
                break
    return out


def merge(results):
    cover = collections.Counter()
    shapes = collections.Counter()
    tot = dict(steps=0, deliveries=0, snapshots=0, episodes=len(results), inconclusive=0)
    viol = []
    for r in results:
        tot["steps"] += r["steps"]
        tot["deliveries"] += r["deliveries"]
        tot["snapshots"] += r["snapshots"]
        if r["inconclusive"]:
            tot["inconclusive"] += 1
        cover.update(r["cover"])
        shapes.update(r["shapes"])
        for v in r["violations"]:
            viol.append((r["seed"], v))
    return tot, cover, shapes, viol


if __name__ == "__main__":
    import sys
    b, hooks = sut.build()
    seed = int(sys.argv[1]) if len(sys.argv) > 1 else 1
    n = int(sys.argv[2]) if len(sys.argv) > 2 else 1
    steps = int(sys.argv[3]) if len(sys.argv) > 3 else 100
    prof = {"name": "default", "hostile_masks": False}
    if n == 1:
        r = run_episode((b, hooks, seed, steps, prof))
        print(json.dumps({k: v for k, v in r.items() if k not in ("cover", "transcripts")}, indent=1)[:6000])
    else:
        rs = run_many(b, hooks, range(seed, seed + n), steps, prof)
        tot, cover, shapes, viol = merge(rs)
        print(tot, len(cover))
        c = collections.Counter(v["signature"] for _, v in viol)
        for s, k in c.most_common(40):
            print(k, s)
        for r in rs:
            if r["inconclusive"]:
                print("INC", r["seed"], r["inconclusive"][:300])
