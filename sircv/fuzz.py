"""E7: hostile input monitor for C05.  Grammar + mutation fuzz of every verb x arity x parameter shape
in every session state; abort sentinel, EOF classifier, bystander liveness, ghost check."""
import collections
import multiprocessing
import random
import time
import traceback

from . import sut, wire

VERBS = ["CAP", "AUTHENTICATE", "PASS", "NICK", "USER", "PING", "PONG", "OPER", "QUIT", "JOIN", "PART",
         "TOPIC", "NAMES", "LIST", "INVITE", "KICK", "MOTD", "VERSION", "ADMIN", "CONNECT", "LUSERS", "TIME",
         "STATS", "LINKS", "HELP", "INFO", "MODE", "PRIVMSG", "NOTICE", "WHO", "WHOIS", "WHOWAS", "KILL",
         "REHASH", "RESTART", "SQUIT", "AWAY", "USERHOST", "WALLOPS", "ISON", "DIE"]
MAXP = {"USER": 4, "KICK": 3, "MODE": 6, "PRIVMSG": 2, "NOTICE": 2, "JOIN": 2, "OPER": 2, "INVITE": 2,
        "WHOWAS": 3, "SQUIT": 2, "KILL": 2, "CONNECT": 3, "LINKS": 2, "WHOIS": 2, "STATS": 2, "CAP": 2,
        "PART": 2, "TOPIC": 2, "LIST": 2}
STATES = ["unregistered", "midcap", "alone", "member", "voice", "halfop", "op", "protected", "founder",
          "oper", "lastmember", "peersleft"]
CHAN = "#fz"


class Gen:
    def __init__(self, rng, me, peers):
        self.r = rng
        self.me = me
        self.peers = peers
        self.corpus = []
        self.past = []  # nicknames this victim held before (they have a WHOWAS history)

    def names(self):
        return [self.me] + self.peers + ["nobody", "root"] + self.past[-3:]

    def param(self, verb, pos):
        r = self.r
        k = r.random()
        nick = r.choice(self.names())
        chan = r.choice([CHAN, CHAN, "#other", "#new%d" % r.randrange(3), "&loc", "#", "&", "#fz,#fz", "##", "#é",
                         "#pre", "#pre"])  # the channel that comes from the configuration, with configured lists
        pool_generic = [
            nick, chan, "%s,%s" % (nick, nick), "%s,%s" % (chan, chan), self.me, "", "x", "*", "?", "**?*?**",
            "A" * 500, "é" * 200, "日本語", "0", "-1", "18446744073709551616", "99999999999999999999999",
            "notnum", "1", "+", "-", "+-+-", "~&@%+" + CHAN, "@" + CHAN, "&&loc", "&" , "@", "~", "%s!*@*" % nick,
            "*!*@*", "*" + "z" * 60, "*!*@*" + "a" * 40 + "*", "a" * 30 + "*" + "b" * 30, "é*", "?" * 50,
            "irc.verif.test", "other.server.example", ".", ",", ",,", ":", "a:b", "a b", "\x01ACTION x\x01",
            "$$", "!", "@@", "n!u@h"] + (["\udcff\udcfe", "B" * 2100] if r.random() < 0.15 else []) + [ "!@", "@!", nick + "!", nick + "@", "%s,%s,nobody,%s" % (nick, chan, nick),
        ]
        modes = ["+o", "-o", "+v", "+b", "-b", "+e", "+I", "+k", "-k", "+l", "-l", "+i", "+imnst", "-imnst",
                 "+q", "+a", "+h", "-q", "+ooo", "+o-o+o", "+lk", "+kl", "+bbb", "+b-b", "+Z", "+", "-", "+-",
                 "o", "+w", "+i", "-i", "+o", "+O", "-O", "+r", "-r", "+iwoOr", "-iwoOr", "+l+l+l", "+beI",
                 "+ov", "-qa", "+" + "o" * 40, "+" + "b" * 40, "+ol", "+hl", "+al", "+ql", "+ok", "+olk", "+ob", "+ab",
                 "+qk", "+hk", "+oll", "+aol"]
        if verb == "MODE" and pos >= 1 and k < 0.75:
            return r.choice(modes) if (pos == 1 or r.random() < 0.4) else r.choice(pool_generic)
        if verb == "CAP" and pos == 0 and k < 0.8:
            return r.choice(["LS", "LIST", "REQ", "END", "ls", "FOO", "302"])
        if verb == "CAP" and pos == 1 and k < 0.8:
            return r.choice(["302", "301", "multi-prefix", "multi-prefix foo", "", "x" * 300, "-1"])
        if verb == "STATS" and pos == 0 and k < 0.7:
            return r.choice(list("chiklmouy") + ["x", "uu", ""])
        if verb in ("JOIN", "PART", "TOPIC", "NAMES", "LIST", "KICK") and pos == 0 and k < 0.7:
            return chan
        if verb in ("INVITE",) and pos == 1 and k < 0.7:
            return chan
        if verb == "MODE" and pos == 0 and k < 0.8:
            return r.choice([chan, nick, self.me, CHAN])
        if verb == "OPER" and k < 0.6:
            return r.choice(["root", "rootpw", "adm", "admpw", nick])
        if verb == "WHOWAS" and pos == 1 and k < 0.6:
            return r.choice(["0", "1", "2", "5", "-1", "99999999999999999999", "18446744073709551615", "x"])
        if verb == "SQUIT" and pos == 0 and k < 0.5:
            return "irc.verif.test"
        return r.choice(pool_generic)

    def line(self):
        r = self.r
        if getattr(self, "script", None):
            out = self.script.pop(0)
            return out, out.split(" ")[0].upper(), len(out.split(" ")) - 1
        if self.corpus and r.random() < 0.25:
            return self.mutate(r.choice(self.corpus))
        verb = r.choice(VERBS)
        if verb in ("QUIT", "DIE", "SQUIT") and r.random() < 0.6:
            verb = r.choice(["MODE", "KICK", "JOIN", "PRIVMSG", "WHO", "WHOIS", "INVITE", "TOPIC"])
        maxp = MAXP.get(verb, 1)
        arity = r.randrange(0, maxp + 3)
        params = [self.param(verb, i) for i in range(arity)]
        v = verb if r.random() < 0.85 else verb.lower()
        out = v
        for i, p in enumerate(params):
            last = i == len(params) - 1
            if last and (p == "" or " " in p or p.startswith(":") or r.random() < 0.3):
                out += " :" + p
            elif p == "" or " " in p:
                out += " " + (p.replace(" ", "_") or "_")
            else:
                out += " " + p
        if r.random() < 0.03:
            out = ":" + r.choice(["src", "a!b@c", "a@b!c", "x:y", ""]) + " " + out
        if len(out) > 1990 and "B" * 2100 not in out:
            out = out[:1990]
        return out, verb, arity

    def mutate(self, line):
        r = self.r
        toks = line.split(" ")
        for _ in range(r.choice([1, 1, 2])):
            k = r.random()
            i = r.randrange(len(toks))
            if k < 0.3 and len(toks) > 1:
                del toks[i]
            elif k < 0.6:
                toks.insert(i + 1, self.param(toks[0].upper(), max(0, i)))
            elif k < 0.8:
                toks[i] = self.param(toks[0].upper(), max(0, i - 1)) or "x"
            else:
                t = toks[i]
                if t:
                    j = r.randrange(len(t))
                    toks[i] = t[:j] + r.choice(["*", "?", ":", ",", "é", "+", "-", "#", "&", "@", "!"]) + t[j + 1:]
        out = " ".join(toks)[:1990]
        verb = out.lstrip(": ").split(" ")[0].upper()
        return out, (verb if verb in VERBS else "?"), max(0, len(toks) - 1)


class Session:
    """one victim connection in one session state plus bystanders"""

    def __init__(self, srv, rng, idx, state, password=None):
        self.srv = srv
        self.r = rng
        self.idx = idx
        self.state = state
        self.password = password
        self.me = "vic%d" % idx
        self.peers = ["by%da" % idx, "by%db" % idx, "fo%d" % idx]
        self.clients = {}
        self.findings = []
        self.n = 0
        self.cases = set()
        self.samples = []
        self.died = False
        self.was_oper = False
        self.reconnects = 0
        self.recent = []

    def c(self, nick):
        cl = wire.Client(self.srv.port, name=nick, timeout=8.0)
        cl.keep_transcript = False
        self.clients[nick] = cl
        return cl

    def setup(self):
        b1, b2, fo = self.peers
        f = self.c(fo)
        f.register(fo, "fo")
        f.send("JOIN " + CHAN)
        f.ping("a")
        x = self.c(b1)
        x.register(b1, "bya")
        x.send("JOIN " + CHAN)
        x.ping("a")
        y = self.c(b2)
        y.register(b2, "byb")  # shares no channel with the victim
        y.ping("a")
        a = self.c(self.me)
        self.enter_state(a)
        for cl in self.clients.values():
            cl.read_available(0.0)

    def enter_state(self, a):
        b1, b2, fo = self.peers
        f = self.clients[fo]
        x = self.clients[b1]
        st = self.state
        if st == "unregistered":
            pass
        elif st == "midcap":
            a.send("CAP LS 302")
            a.send("NICK " + self.me)
        else:
            a.register(self.me, "vic")
            if st in ("member", "voice", "halfop", "op", "protected", "founder", "lastmember", "peersleft"):
                a.send("JOIN " + CHAN)
                a.ping("a")
                letter = {"voice": "v", "halfop": "h", "op": "o", "protected": "a", "founder": "q"}.get(st)
                if letter:
                    f.send("MODE %s +%s %s" % (CHAN, letter, self.me))
                    f.ping("b")
                if st == "peersleft":
                    x.send("PART " + CHAN)
                    x.ping("p")
                if st == "lastmember":
                    f.send("MODE %s +o %s" % (CHAN, self.me))
                    f.ping("b")
                    x.send("PART " + CHAN)
                    x.ping("p")
                    f.send("PART " + CHAN)
                    f.ping("p")
            elif st == "oper":
                a.send("OPER root rootpw")
                a.ping("o")
                a.send("JOIN " + CHAN)
                a.ping("a")

    def explained(self, lines, sent):
        """is the end of the victim's connection explained by the protocol?"""
        raw = [m.raw for m in lines]
        for m in lines:
            if m.verb.startswith("ERROR") and ("Closing connection" in m.raw or "killed by" in m.raw
                                               or "Pong timeout" in m.raw):
                return True
            if m.verb == "464":
                return True
            if m.verb == "417":
                return True
        try:
            sent.encode("utf-8")
        except UnicodeEncodeError:
            return True
        # an over-long line: the 417 may be lost to the reset that follows the server's close
        if len(sent.encode("utf-8", "surrogateescape")) >= 1999:
            return True
        return False

    def run(self, nlines):
        gen = Gen(self.r, self.me, self.peers)
        a = self.clients[self.me]
        b1, b2, fo = self.peers
        last_codes = None
        if self.state not in ("unregistered", "midcap") and self.r.random() < 0.4:
            # the victim is also on the channel that comes from the configuration (its lists were never set by MODE)
            a.send("JOIN #pre")
            a.ping("pre")
            # every query and every list of that channel once, in random order, before the random lines
            gen.script = ["MODE #pre +b", "MODE #pre +e", "MODE #pre +I", "MODE #pre b", "MODE #pre e", "MODE #pre I", "MODE #pre",
                          "MODE #pre +beI", "TOPIC #pre", "NAMES #pre", "WHO #pre", "LIST #pre", "MODE #pre -b *!*@10.*",
                          "MODE #pre +b", "PRIVMSG #pre :moderated", "MODE #pre +b *!*@10.*", "MODE #pre -e *!*@10.1.*",
                          "MODE #pre +e", "INVITE %s #pre" % b1, "KICK #pre vic0", "PART #pre", "JOIN #pre", "MODE #pre +I"]
            self.r.shuffle(gen.script)
        for i in range(nlines):
            line, verb, arity = gen.line()
            self.n += 1
            tag = "VSYNC%d" % self.n
            self.recent.append(line[:200])
            del self.recent[:-6]
            a.send(line)
            a.send(tag)
            closed = None
            try:
                lines = a.read_until(lambda m: m.verb == "421" and tag in m.params, 8.0)
            except wire.Closed as ex:
                closed = ex.kind
                lines = ex.lines
            except wire.Timeout as ex:
                self.findings.append(("fuzz:stall|" + verb, "no answer within 8 s after %r in state %s"
                                      % (line, self.state)))
                return
            codes = tuple(sorted({m.verb for m in lines if m.verb != "421" or tag not in m.params}))
            key = (verb, min(arity, 6), self.state, codes)
            if key not in self.cases:
                self.cases.add(key)
                if len(gen.corpus) < 400 and verb != "?":
                    gen.corpus.append(line)
            if len(self.samples) < 3 and self.r.random() < 0.02:
                self.samples.append({"state": self.state, "line": line[:160], "replies": list(codes)})
            if any(m.verb == "381" for m in lines):
                self.was_oper = True
            snap = self.safe_snap()
            if snap is not None and snap["handler_aborts"]:
                time.sleep(0.05)
                p, ab = self.srv.panics()
                loc, msg = ab[-1][1] if ab and ab[-1][1] else ("?", "?")
                self.findings.append(("handler-abort|%s|%s|%s" % (loc, msg, verb),
                                      "handler aborted (%s: %s) after %r in state %s" % (loc, msg, line, self.state)))
                self.died = True
                return
            if not self.srv.alive():
                if self.was_oper or self.state == "oper":
                    self.died = True  # DIE / SQUIT by an operator: legitimate
                    return
                self.findings.append(("fuzz:server-exit|" + verb, "server process exited after %r" % line))
                self.died = True
                return
            if closed:
                if self.was_oper or self.state == "oper":
                    # possibly DIE/SQUIT by the victim itself: give the process time to stop
                    for _ in range(400):
                        if not self.srv.alive():
                            self.died = True
                            return
                        time.sleep(0.01)
                if not self.explained(lines, line):
                    self.findings.append(("fuzz:unexplained-close|" + verb,
                                          "victim connection closed (%s) after %r in state %s; last lines %s"
                                          % (closed, line[:300], self.state, [m.raw for m in lines][-3:])
                                          + "; previous lines: %s" % self.recent[:-1]
                                          + "; server log: %s" % self.log_tail()))
                    return
                # the protocol ended the session: come back as a new connection and go on
                self.reconnects += 1
                a.close()
                gen.past.append(self.me)
                self.me = "vic%dr%d" % (self.idx, self.reconnects)
                gen.me = self.me
                a = self.c(self.me)
                try:
                    self.enter_state(a)
                except (wire.Closed, wire.Timeout):
                    return
            if i % 20 == 19:
                if not self.bystanders(line):
                    return

    def log_tail(self):
        time.sleep(0.05)
        out = [l for l in self.srv.output().splitlines() if self.me in l or "panick" in l or "ERROR" in l]
        import re
        return [re.sub(r"\x1b\[[0-9;]*m", "", l)[-220:] for l in out[-5:]]

    def safe_snap(self):
        if not self.srv.hooks:
            return None
        try:
            return self.srv.snap()
        except (RuntimeError, OSError, ValueError):
            # the control connection went away: the process is exiting
            for _ in range(200):
                if not self.srv.alive():
                    break
                time.sleep(0.01)
            return None

    def bystanders(self, last_line):
        """every bystander still answers, and a message between two of them still arrives"""
        b1, b2, fo = self.peers
        tok = "lv%d" % self.n
        for n in (b1, b2, fo):
            c = self.clients[n]
            try:
                c.send("PING " + tok)
                lines = c.read_until(lambda m: m.verb == "PONG" and m.params[-1:] == [tok], 5.0)
            except wire.Closed as ex:
                if any("killed by" in m.raw for m in ex.lines):
                    self.died = True  # killed by the victim holding operator status: explained
                    return False
                if self.was_oper or self.state == "oper":
                    # DIE / SQUIT by the victim as operator ends every session first and the process a moment later
                    for _ in range(400):
                        if not self.srv.alive():
                            break
                        time.sleep(0.01)
                if not self.srv.alive():
                    self.died = True
                    return False
                self.findings.append(("fuzz:bystander-closed", "bystander %s closed (%s) after %r: %s"
                                      % (n, ex.kind, last_line, [m.raw for m in ex.lines][-2:])))
                return False
            except wire.Timeout:
                self.findings.append(("fuzz:bystander-stalled", "bystander %s silent 5 s after %r" % (n, last_line)))
                return False
        # deprivation probe: b1 -> b2 by nick
        self.clients[b1].send("PRIVMSG %s :probe%d" % (b2, self.n))
        try:
            self.clients[b2].read_until(lambda m: m.verb == "PRIVMSG" and m.params[-1:] == ["probe%d" % self.n], 5.0)
            self.clients[b1].ping("pp")
        except (wire.Closed, wire.Timeout) as ex:
            self.findings.append(("fuzz:bystander-deprived", "message %s -> %s lost after %r (%s)"
                                  % (b1, b2, last_line, type(ex).__name__)))
            return False
        return True

    def finish(self):
        """close everything; no ghost may remain"""
        mine = set([self.me] + self.peers)
        for c in self.clients.values():
            c.close()
        if self.died or not self.srv.hooks or not self.srv.alive():
            return
        deadline = time.monotonic() + 5
        left = None
        while time.monotonic() < deadline:
            s = self.safe_snap()
            if s is None:
                return
            left = [n for n, u in s["users"].items() if u["name"] in ("vic", "bya", "byb", "fo")]
            if not left and s["conns_count"] == 0:
                return
            time.sleep(0.01)
        self.findings.append(("fuzz:ghost", "after closing all sockets users %s remain / conns_count=%s"
                              % (left, s["conns_count"])))


def worker(args):
    binary, hooks, seed, sessions, nlines, release_note = args
    rng = random.Random(seed)
    out = dict(lines=0, cases=set(), findings=[], samples=[], counts={}, inconclusive=None, sessions=0)
    cfg = dict(operators=[{"name": "root", "password": sut.password_hash(binary, "rootpw")},
                          {"name": "adm", "password": sut.password_hash(binary, "admpw"), "mask": "*!*@10.*"}],
               max_joins=rng.choice([None, 2, 5]), log_level="INFO",
               channels=[{"name": "#pre", "topic": "from the configuration",
                          "modes": {"moderated": True, "operators": ["vic0"], "ban": ["*!*@10.*", "zz*!*@*"],
                                    "exception": ["*!*@10.1.*"], "invite_exception": ["yy*!*@*"]}}])
    if rng.random() < 0.5:
        # the victim's user name is a predefined user: it is +r and may drop / take back that mode
        cfg["users"] = [{"name": "vic", "nick": "vic-nick"}]
    srv = None
    try:
        srv = sut.Server(binary, cfg, hooks=hooks).start()
        for k in range(sessions):
            st = STATES[(seed + k) % len(STATES)] if k < len(STATES) else rng.choice(STATES)
            if not srv.alive():
                srv.stop()
                srv = sut.Server(binary, cfg, hooks=hooks).start()
            s = Session(srv, rng, k, st)
            try:
                s.setup()
                s.run(nlines)
                s.finish()
            except (wire.Closed, wire.Timeout, OSError) as ex:
                if srv.alive() and not s.died:
                    out["inconclusive"] = "session setup/teardown: %r" % (ex,)
            out["lines"] += s.n
            out["sessions"] += 1
            out["cases"] |= s.cases
            out["findings"] += s.findings
            out["samples"] += s.samples[:1]
            sn = s.safe_snap() if srv.alive() else None
            if sn is not None:
                for v, c in sn["command_counts"].items():
                    out["counts"][v] = max(out["counts"].get(v, 0), c)
            if s.findings or s.died:
                # a crashed world is not reused
                srv.stop()
                srv = sut.Server(binary, cfg, hooks=hooks).start()
    except Exception as ex:  # harness trouble is never a violation
        out["inconclusive"] = "harness error %r %s" % (ex, traceback.format_exc()[-800:])
    finally:
        if srv is not None:
            srv.stop()
    out["cases"] = list(out["cases"])
    return out


def run(binary, hooks, seeds, sessions, nlines, workers=16):
    with multiprocessing.Pool(workers) as pool:
        return pool.map(worker, [(binary, hooks, s, sessions, nlines, "") for s in seeds])
