"""E5: keep-alive monitor for C17 (real time; second-scale timeouts; bounded-progress rules)."""
import select
import socket
import threading
import time

from . import sut, wire

BEHAVIOURS = ["always", "never", "stop2", "late-within", "late-beyond", "wrong-token", "unsolicited",
              "chatty-silent", "late-long", "never", "always", "slow-register", "slow-register-silent", "cap-renegotiate", "late-once-silent", "cap-open-silent", "cap-open-answering",
              "fragment-silent", "split-answers", "fragment-silent", "surplus-then-silent", "double-then-silent",
              "surplus-then-silent", "busy-at-deadline", "busy-at-deadline", "blank-before-answers",
              "busy-late-pong", "busy-late-pong", "busy-late-pong",
              "stalled-late-pong", "stalled-late-pong", "stalled-late-pong", "multi-param-answers", "multi-param-answers"]


class Lag(threading.Thread):
    """measures the harness's own scheduling lag (a heartbeat that should tick every 50 ms)"""

    def __init__(self):
        threading.Thread.__init__(self, daemon=True)
        self.max_lag = 0.0
        self.stop = False

    def run(self):
        last = time.monotonic()
        while not self.stop:
            time.sleep(0.05)
            now = time.monotonic()
            self.max_lag = max(self.max_lag, now - last - 0.05)
            last = now


class Peer:
    def __init__(self, srv, nick, behaviour, ping, pong):
        self.nick = nick
        self.idx = int("".join(ch for ch in nick[1:3] if ch.isdigit()) or 0)
        self.b = behaviour
        self.P, self.Q = ping, pong
        self.c = wire.Client(srv.port, name=nick, timeout=8.0)
        self.c.keep_transcript = False
        self.t_conn = time.monotonic()
        self.registered = True
        self.pre_reg_pings = 0
        if behaviour.startswith("slow-register"):
            # the keep-alive clock starts at registration: a client that takes longer than ping_timeout to
            # register is pinged from then on and, answering, stays
            self.registered = False
            self.user_due = self.t_conn + ping + 0.8
            self.c.send("NICK " + nick)
        else:
            self.c.register(nick, "ck")
        self.t_reg = time.monotonic()
        self.renegotiate_at = self.t_reg + 0.4
        self.events = []  # (t, kind, detail)
        self.server_pings = []
        self.answered = 0
        self.first_unanswered = None
        self.pending_answers = []  # (due time, token)
        self.own_tokens = {}  # token -> t sent
        self.own_ok = 0
        self.closed_at = None
        self.error_line = None
        self.next_own_ping = self.t_reg + 0.7
        self.next_chat = self.t_reg + 0.5
        self.n = 0
        self.fragment_at = self.t_reg + 0.3
        self.pending_tails = []
        self.burst_end = None
        self.mark_sent = False
        self.port = srv.port
        self.paused = False  # a stalled reader: pump() leaves its socket alone
        self.stall_rounds = 0
        self.stall_next = 0.0
        self.stall_notes = []

    def r_capline(self):
        return ["CAP LS 302", "CAP REQ :multi-prefix", "CAP REQ :bogus"][self.idx % 3]

    def on_line(self, m, now):
        if not self.registered:
            if m.verb == "001":
                self.registered = True
                self.t_reg = now
                self.next_own_ping = now + 0.7
            elif m.verb == "PING":
                self.pre_reg_pings += 1
                self.c.send("PONG :" + (m.params[-1] if m.params else ""))
            elif m.verb.startswith("ERROR"):
                self.error_line = m.raw
            return
        if m.verb == "PING":
            self.server_pings.append(now)
            tok = m.params[-1] if m.params else ""
            self.last_tok = tok
            b = self.b
            answer = None
            if b in ("always", "unsolicited", "slow-register", "cap-renegotiate", "cap-open-answering", "split-answers",
                     "blank-before-answers", "multi-param-answers"):
                answer = (now, tok)
            elif b == "wrong-token":
                answer = (now, "not-the-token")
            elif b == "stop2":
                if self.answered < 2:
                    answer = (now, tok)
            elif b == "double-then-silent":
                # the first PING is answered twice (one PONG too many), then nothing more is answered
                if len(self.server_pings) == 1:
                    answer = (now, tok)
                    self.pending_answers.append((now + 0.05, tok))
            elif b == "late-within":
                answer = (now + min(self.Q * 0.5, 0.6), tok)
            elif b == "late-long":
                # later than ping_timeout but still inside pong_timeout (when pong_timeout is the larger one)
                answer = (now + ((self.P + self.Q) / 2.0 if self.Q > self.P else min(self.Q * 0.5, 0.6)), tok)
            elif b == "late-beyond":
                answer = (now + self.Q + 1.2, tok)
            elif b == "late-once-silent":
                # pong_timeout > ping_timeout: the first PING is answered only after the second has arrived (still inside
                # the first one's pong_timeout: a valid answer), then silence - the next unanswered PING starts the clock
                if self.Q > self.P:
                    if len(self.server_pings) == 2 and self.answered == 0:
                        answer = (now + 0.3, tok)
                        self.first_unanswered = None
                        self.reset_unanswered = True
                elif self.answered < 2:
                    answer = (now, tok)
            if b == "late-once-silent" and self.Q > self.P and len(self.server_pings) < 2:
                pass  # PING #1 is answered by the single late PONG
            elif answer is None or b == "late-beyond":
                if self.first_unanswered is None:
                    self.first_unanswered = now
            if answer is not None:
                self.pending_answers.append(answer)
        elif m.verb == "PONG":
            tok = m.params[-1] if m.params else None
            if tok in self.own_tokens:
                del self.own_tokens[tok]
                self.own_ok += 1
                if tok == "busy-mark":
                    self.burst_end = now
            else:
                self.events.append((now, "unexpected-pong", m.raw))
        elif m.verb.startswith("ERROR"):
            self.error_line = m.raw

    def stall(self, t_ping, tok):
        """(thread) stop reading, have a helper fill this connection's outgoing path until its handler blocks in the
        middle of a write, put the due PONG behind it, and start reading again just after the pong timeout has expired:
        the handler then finds the late answer and the expired timeout waiting for it at the same moment"""
        helper = None
        try:
            helper = wire.Client(self.port, name="f" + self.nick, timeout=8.0)
            helper.keep_transcript = False
            helper.register("f" + self.nick, "ck")
            line = b"PRIVMSG " + self.nick.encode() + b" :" + b"x" * 400 + b"\r\n"
            helper.sock.settimeout(8.0)
            helper.sock.sendall(line * 13000)  # > tcp_wmem max + this peer's receive buffer
            helper.sock.sendall(b"PING :flood-done\r\n")
            t_end = time.monotonic() + 4.0
            done = False
            while not done and time.monotonic() < t_end:
                for m in helper.read_available(0.05):
                    if m.verb == "PONG":
                        done = True
            time.sleep(0.05)
            sent_at = time.monotonic() - t_ping
            self.c.send_raw(b"PONG :" + tok.encode() + b"\r\n")
            time.sleep(max(0.0, t_ping + self.Q + 0.12 - time.monotonic()))
            self.stall_notes.append(dict(flood_done=done, pong_sent_after=round(sent_at, 2),
                                         resumed_after=round(time.monotonic() - t_ping, 2)))
        except (wire.Closed, wire.Timeout, OSError, RuntimeError) as ex:
            self.stall_notes.append(dict(error=repr(ex)))
        finally:
            try:
                if helper is not None:
                    helper.close()
            except OSError:
                pass
            self.first_unanswered = None
            self.stall_next = time.monotonic() + 0.6
            self.paused = False

    def tick(self, now):
        if self.closed_at is not None or self.paused:
            return
        if self.b == "stalled-late-pong" and self.first_unanswered is not None and now >= self.stall_next \
                and now - self.first_unanswered > 0.3:
            self.first_unanswered = None  # a PING read late (it was sent during the last stall): wait for a fresh one
        if self.b == "stalled-late-pong" and self.first_unanswered is not None and self.stall_rounds < 3 \
                and now >= self.stall_next and now >= self.first_unanswered + 0.03:
            self.stall_rounds += 1
            self.paused = True
            threading.Thread(target=self.stall, args=(self.first_unanswered, self.last_tok), daemon=True).start()
            return
        if not self.registered:
            if self.user_due is not None and now >= self.user_due:
                self.user_due = None
                self.c.send("USER ck 0 * :slow one")
            return
        if self.b.startswith("cap-open") and self.renegotiate_at is not None and now >= self.renegotiate_at:
            # a capability negotiation opened in mid-session and never closed (legal): the keep-alive rules go on
            self.renegotiate_at = None
            self.c.send(self.r_capline())
        if self.b == "cap-renegotiate" and self.renegotiate_at is not None and now >= self.renegotiate_at:
            # capability negotiation in mid-session: "any other traffic on the connection in the meantime"
            self.renegotiate_at = now + 1.3 if self.n < 6 else None
            self.c.send("CAP LS 302")
            self.c.send("CAP REQ :multi-prefix")
            self.c.send("CAP END")
        if self.b == "fragment-silent" and self.fragment_at is not None and now >= self.fragment_at:
            # the last thing this peer ever sends is the beginning of a line: not an answer to anything
            self.fragment_at = None
            self.c.send_raw([b"PON", b"PRIVMSG " + self.nick.encode() + b" :hel", b"PONG :", b"P", b"\r"][self.idx % 5])
        for t in [t for t in self.pending_tails if t[0] <= now]:
            self.pending_tails.remove(t)
            self.c.send_raw(t[1])
            self.answered += 1
        due = [a for a in self.pending_answers if a[0] <= now]
        for a in due:
            self.pending_answers.remove(a)
            if self.b == "blank-before-answers":
                # an empty line (ignored) and the answer in one write: the answer counts as soon as it is there
                self.c.send_raw(("\r\n" * (1 + self.answered % 3) + "PONG :%s\r\n" % a[1]).encode())
                self.answered += 1
                continue
            if self.b == "split-answers":
                # the answer arrives in two pieces a moment apart: still one PONG, in time
                line = ("PONG :%s\r\n" % a[1]).encode()
                cut = 1 + (self.answered + self.idx) % (len(line) - 2)
                self.c.send_raw(line[:cut])
                self.pending_tails.append((now + min(0.25, self.Q * 0.3), line[cut:]))
                continue
            if self.b == "multi-param-answers":
                # the older forms of the answer: PONG <server> [<server2>|:<token>] - still a PONG, still an answer
                form = ["PONG irc.verif.test :%s", "PONG %s irc.verif.test", "PONG %s :two words", "PONG a b c :%s",
                        "PONG %s"][(self.answered + self.idx) % 5]
                self.c.send(form % a[1] if "%s" in form else form)
                self.answered += 1
                continue
            self.c.send("PONG :" + a[1])
            self.answered += 1
        if now >= self.next_own_ping and self.b not in ("never", "fragment-silent", "split-answers", "surplus-then-silent",
                                                         "double-then-silent", "busy-at-deadline", "busy-late-pong", "stalled-late-pong"):
            self.n += 1
            # "a PONG carrying the same token": ordinary and odd tokens (empty, leading colon, blanks, multi-byte)
            odd = ["", ":", ":-) %d", "a:b%d", "two words %d", "é%d", "::%d", " lead%d", "#%d", "%d:", "trail%d ",
                   "tab%d\t", "two%d  ", " %d ", "  "]
            if self.n % 3 == 0:
                t = odd[(self.n // 3 + self.idx * 4) % len(odd)]  # every peer starts elsewhere in the list
                tok = (t % self.n) if "%d" in t else t
                if tok in self.own_tokens:
                    tok = "%s-%d" % (self.nick, self.n)
            else:
                tok = "%s-%d" % (self.nick, self.n)
            self.own_tokens[tok] = now
            if self.b == "blank-before-answers":
                self.c.send_raw(("\r\nPING :%s\r\n" % tok).encode())
            elif self.n % 4 == 1 and tok and not any(ch.isspace() for ch in tok) and not tok.startswith(":"):
                # the token is the first parameter; a second one (a server name, some words) does not replace it
                self.c.send("PING %s %s" % (tok, ["irc.verif.test", ":some more words", "x y"][self.n % 3]))
            else:
                self.c.send("PING :" + tok)
            self.next_own_ping = now + 0.9
        if self.b == "busy-late-pong" and self.first_unanswered is not None and not self.mark_sent:
            # as below, but the burst ends with the PONG that is due - too late: whichever the server sees first, the
            # expired timeout or the late answer, the session ends and is cleaned up like any other
            due = self.first_unanswered + self.Q
            if now >= due - 0.004 * (1 + self.idx % 6):
                # (OPER, PONG) pairs back to back across the deadline: a PONG that is executed before the deadline is a
                # valid answer (the peer lives on and tries again at the next PING), one that comes after it is late
                self.c.send_raw((b"OPER root wrong\r\nPONG :" + self.last_tok.encode() + b"\r\n") * 14)
                self.first_unanswered = None
                self.racy_rounds = getattr(self, "racy_rounds", 0) + 1
        if self.b == "busy-at-deadline" and self.first_unanswered is not None and not self.mark_sent:
            # never answers; around the moment its pong timeout expires it keeps its own handler busy with commands (wrong
            # OPER attempts, ~3 ms each): the timeout must not get lost because nobody was waiting for it at that instant
            due = self.first_unanswered + self.Q
            if due - 0.4 <= now < due + 0.4:
                self.c.send_raw(b"OPER root wrong\r\n" * (6 + self.idx % 5))
            elif now >= due + 0.4:
                self.mark_sent = True
                self.own_tokens["busy-mark"] = now
                self.c.send("PING :busy-mark")
        if self.b == "surplus-then-silent" and self.fragment_at is not None and now >= self.fragment_at:
            # PONGs nobody asked for, before the first server PING; no PING is ever answered
            self.fragment_at = None
            for k in range(1 + self.idx % 3):
                self.c.send("PONG :nobody-asked-%d" % k)
        if self.b == "unsolicited" and now >= self.next_chat:
            self.c.send("PONG :unsolicited")
            self.next_chat = now + 0.4
        if self.b == "chatty-silent" and now >= self.next_chat:
            self.c.send("PRIVMSG %s :still here" % self.nick)
            self.next_chat = now + 0.4


def run_config(args):
    binary, hooks, P, Q, duration, seed = args
    out = dict(config=(P, Q), findings=[], inconclusive=None, peers=[], events=0, classes=[])
    lag = Lag()
    lag.start()
    try:
        with sut.Server(binary, dict(ping_timeout=P, pong_timeout=Q,
                                     operators=[{"name": "root", "password": sut.password_hash(binary, "rootpw")}]),
                        hooks=hooks) as srv:
            peers = []
            t0 = time.monotonic()
            # staggered registration phases
            for i, b in enumerate(BEHAVIOURS):
                peers.append(Peer(srv, "k%d%s" % (i, b[:2].replace("-", "")), b, P, Q))
                pump(peers, 0.13)
            end = time.monotonic() + duration
            while time.monotonic() < end:
                pump(peers, 0.02)
            now = time.monotonic()
            slack = 1.0 + lag.max_lag
            if lag.max_lag > 0.5:
                out["inconclusive"] = "harness scheduling lag %.2f s" % lag.max_lag
            for p in peers:
                T = (p.closed_at or now) - p.t_reg
                out["events"] += len(p.server_pings) + p.own_ok + p.answered
                out["classes"].append((P, Q, p.b, p.closed_at is not None))
                rec = dict(behaviour=p.b, server_pings=len(p.server_pings), answered=p.answered,
                           own_pings_ok=p.own_ok, closed_after=None if p.closed_at is None else round(p.closed_at - p.t_reg, 2),
                           first_unanswered=None if p.first_unanswered is None else round(p.first_unanswered - p.t_reg, 2))
                out["peers"].append(rec)
                tag = "P%d-Q%d" % (P, Q)
                responsive = p.b in ("always", "late-within", "late-long", "wrong-token", "unsolicited", "slow-register",
                                     "cap-renegotiate", "cap-open-answering", "split-answers", "blank-before-answers",
                                     "multi-param-answers")
                if not p.registered:
                    # the statement is about registered clients only: nothing to judge
                    out["inconclusive"] = "slow registrant %s never got its welcome (closed: %s, %s)" % (
                        p.nick, p.closed_at is not None, p.error_line)
                    continue
                rec["pings_before_registration"] = p.pre_reg_pings
                # R1 own PINGs echoed
                stale = [t for t in p.own_tokens.values() if now - t > 3.0 and (p.closed_at is None or t < p.closed_at - 3.0)]
                if stale:
                    out["findings"].append(("clock:ping-not-answered|" + p.b,
                                            "[%s] %s: %d client PINGs without a PONG carrying the token" % (tag, p.nick, len(stale))))
                if [e for e in p.events if e[1] == "unexpected-pong"]:
                    out["findings"].append(("clock:pong-wrong-token|" + p.b, "[%s] %s: %s" % (tag, p.nick, p.events[:2])))
                racy = p.b in ("busy-late-pong", "stalled-late-pong")
                if p.b == "stalled-late-pong":
                    rec["stall_rounds"] = p.stall_notes
                # R2 live peers stay
                if responsive and p.closed_at is not None:
                    out["findings"].append(("clock:live-peer-dropped|" + p.b,
                                            "[%s] %s answered every PING (%d of %d) but was disconnected after %.1f s: %s"
                                            % (tag, p.nick, p.answered, len(p.server_pings), T, p.error_line)))
                # R3 the server keeps pinging (bounded progress)
                if (p.closed_at is None or responsive) and not racy:
                    want = int(T // P) - 1
                    if len(p.server_pings) < want:
                        out["findings"].append(("clock:too-few-pings|" + p.b,
                                                "[%s] %s: %d server PINGs in %.1f s (expected at least %d)"
                                                % (tag, p.nick, len(p.server_pings), T, want)))
                # R4 dead peers go
                if not responsive and not racy and p.first_unanswered is not None:
                    # (a peer that kept its own handler busy across the deadline is judged from the end of its burst)
                    deadline = max(p.first_unanswered + Q, p.burst_end or 0) + slack
                    if p.closed_at is None:
                        if now > deadline + 0.2:
                            out["findings"].append(("clock:dead-peer-kept|" + ("never" if p.b != "late-beyond" else p.b),
                                                    "[%s] %s (%s) failed to answer the PING at +%.1f s and is still connected "
                                                    "%.1f s later (pong_timeout %d s, slack %.1f s)"
                                                    % (tag, p.nick, p.b, p.first_unanswered - p.t_reg,
                                                       now - p.first_unanswered, Q, slack)))
                    elif p.closed_at > deadline and p.b != "busy-late-pong":
                        out["findings"].append(("clock:dead-peer-late|" + ("never" if p.b != "late-beyond" else p.b),
                                                "[%s] %s (%s) dropped %.1f s after the unanswered PING (pong_timeout %d s, "
                                                "slack %.1f s)" % (tag, p.nick, p.b, p.closed_at - p.first_unanswered, Q, slack)))
                    # (a peer that is still writing when the server closes may lose the unread ERROR line to the reset its
                    # own late bytes provoke: TCP, not the server)
                    if p.closed_at is not None and p.b not in ("busy-at-deadline", "busy-late-pong", "stalled-late-pong") \
                            and (p.error_line is None or "timeout" not in p.error_line.lower()):
                        out["findings"].append(("clock:no-error-line|" + p.b,
                                                "[%s] %s closed without an ERROR about the timeout: %r" % (tag, p.nick, p.error_line)))
            # R5 clean-up of the dropped ones (C06): gone from the state, nick free again
            if hooks:
                time.sleep(0.1)
                snap = srv.snap()
                for p in peers:
                    if p.closed_at is not None and p.nick in snap["users"]:
                        out["findings"].append(("clock:not-cleaned-up", "[P%d-Q%d] %s still registered after its timeout" % (P, Q, p.nick)))
                    if p.closed_at is not None and p.nick not in snap["nick_histories"]:
                        out["findings"].append(("clock:no-whowas", "[P%d-Q%d] %s has no WHOWAS record" % (P, Q, p.nick)))
                from . import invariants
                for inv_id, detail in invariants.check(snap):
                    if inv_id != "I9":
                        out["findings"].append(("clock:inv:" + inv_id, detail))
                if snap["handler_aborts"]:
                    out["findings"].append(("clock:handler-abort", "handler aborted in keep-alive run: %s" % (srv.panics()[0][-2:],)))
            for p in peers:
                p.c.close()
    except (wire.Closed, wire.Timeout, OSError, RuntimeError) as ex:
        out["inconclusive"] = "clock %s: %r" % ((P, Q), ex)
    finally:
        lag.stop = True
    out["lag"] = round(lag.max_lag, 3)
    return out


def pump(peers, wait):
    socks = {p.c.sock: p for p in peers if p.closed_at is None and not p.paused}
    if socks:
        r, _, _ = select.select(list(socks), [], [], wait)
    else:
        time.sleep(wait)
        r = []
    now = time.monotonic()
    for s in r:
        p = socks[s]
        for m in p.c.read_available(0.0):
            p.on_line(m, now)
        if p.c.eof:
            p.closed_at = now
    for p in peers:
        p.tick(now)
