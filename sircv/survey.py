import sys, collections, json
from . import e1, sut
def main():
    b, hooks = sut.build()
    seed=int(sys.argv[1]); n=int(sys.argv[2]); steps=int(sys.argv[3])
    prof={"name":"default","hostile_masks": len(sys.argv)>4 and sys.argv[4]=="hostile"}
    if len(sys.argv)>5: prof["weights"]=json.loads(sys.argv[5])
    rs=e1.run_many(b,hooks,range(seed,seed+n),steps,prof)
    tot,cover,shapes,viol=e1.merge(rs)
    print(tot,len(cover))
    first={}
    c=collections.Counter()
    for s,v in viol:
        c[v["signature"]]+=1
        first.setdefault(v["signature"],(s,v))
    for sig,k in c.most_common():
        s,v=first[sig]
        print("%3d %s\n      seed=%d step=%d %s"%(k,sig,s,v["step"],v["detail"][:400]))
    for r in rs:
        if r["inconclusive"]: print("INC",r["seed"],r["inconclusive"][:500])
main()
