"""Reference glob matcher and mask completion, written from the statement of C14."""


def match(pattern, text):
    """whole-text match; '*' any (possibly empty) run, '?' exactly one character, the rest literal,
    case-sensitive; over Unicode scalar values"""
    p, t = pattern, text
    np, nt = len(p), len(t)
    # iterative two-pointer algorithm with backtracking to the last star
    i = j = 0
    star = -1
    mark = 0
    while j < nt:
        if i < np and p[i] == "*":
            star = i
            mark = j
            i += 1
        elif i < np and (p[i] == "?" or p[i] == t[j]):
            i += 1
            j += 1
        elif star >= 0:
            i = star + 1
            mark += 1
            j = mark
        else:
            return False
    while i < np and p[i] == "*":
        i += 1
    return i == np


def complete(mask):
    """nick -> nick!*@*, nick@host -> nick!*@host, nick!user -> nick!user@*"""
    if "!" in mask:
        rest = mask.split("!", 1)[1]
        return mask if "@" in rest else mask + "@*"
    if "@" in mask:
        n, h = mask.split("@", 1)
        return n + "!*@" + h
    return mask + "!*@*"


def any_match(masks, text):
    return any(match(m, text) for m in masks)
