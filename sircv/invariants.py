"""Structural invariants of the live state, checked on a snapshot taken under the server's lock."""

RANK_SETS = (("founders", "q"), ("protecteds", "a"), ("operators", "o"), ("half_operators", "h"),
             ("voices", "v"))


def check(snap, open_conns=None, owned_nicks=None, high_water=None):
    """-> list of (invariant id, detail).  open_conns: number of accepted sockets the harness holds;
    owned_nicks: nicks that belong to live sockets; high_water: max simultaneous users seen."""
    out = []
    users, chans = snap["users"], snap["channels"]
    # I1 membership symmetry
    for n, u in users.items():
        for c in u["channels"]:
            if c not in chans or n not in chans[c]["users"]:
                out.append(("I1", "user %s lists %s but the channel does not list the user" % (n, c)))
    for cn, c in chans.items():
        for n in c["users"]:
            if n not in users:
                out.append(("I1", "channel %s lists %s who is not a user" % (cn, n)))
            elif cn not in users[n]["channels"]:
                out.append(("I1", "channel %s lists %s but the user does not list the channel" % (cn, n)))
        # I2 rank sets equal flags
        for key, letter in RANK_SETS:
            s = set(c[key] or ())
            f = {n for n, r in c["users"].items() if letter in r}
            if s != f:
                out.append(("I2", "%s %s set %s != members with flag %s" % (cn, key, sorted(s), sorted(f))))
        # I5 no empty non-preconfigured channel
        if not c["users"] and not c["preconfigured"]:
            out.append(("I5", "empty channel %s still exists" % cn))
    # I3 wallops audience
    w = {n for n, u in users.items() if u["wallops"]}
    if set(snap["wallops_users"]) != w:
        out.append(("I3", "wallops_users %s != users with +w %s" % (sorted(snap["wallops_users"]), sorted(w))))
    # I4 counters
    inv = sum(1 for u in users.values() if u["invisible"])
    ops = sum(1 for u in users.values() if u["oper"] or u["local_oper"])
    if snap["invisible_users_count"] != inv:
        out.append(("I4", "invisible_users_count %d != %d" % (snap["invisible_users_count"], inv)))
    if snap["operators_count"] != ops:
        out.append(("I4", "operators_count %d != %d" % (snap["operators_count"], ops)))
    if high_water is not None and snap["max_users_count"] != high_water:
        out.append(("I4", "max_users_count %d != high-water mark %d" % (snap["max_users_count"], high_water)))
    # I6 key and identity agree
    for n, u in users.items():
        if not u["source"].startswith(n + "!"):
            out.append(("I6", "user key %s has source %s" % (n, u["source"])))
    # I7 no ghost
    if owned_nicks is not None:
        for n, u in users.items():
            if n not in owned_nicks:
                out.append(("I7", "user %s is registered but no live connection owns it" % n))
            if u["sender_closed"]:
                out.append(("I7", "user %s has a closed outbound queue (its handler is gone)" % n))
    # I8 connection slots
    if open_conns is not None and snap["conns_count"] != open_conns:
        out.append(("I8", "conns_count %d != %d open connections" % (snap["conns_count"], open_conns)))
    # I9 handler aborts
    if snap["handler_aborts"]:
        out.append(("I9", "%d handler abort(s)" % snap["handler_aborts"]))
    return out


def canon(snap):
    """canonical state in the same shape as Model.canon()"""
    ranks = "qaohv"
    return {
        "users": {n: {"user": u["name"], "host": u["hostname"], "realname": u["realname"],
                      "modes": "".join(sorted(l for k, l in (("invisible", "i"), ("oper", "o"),
                                                              ("local_oper", "O"), ("registered", "r"),
                                                              ("wallops", "w")) if u[k])),
                      "away": u["away"], "channels": sorted(u["channels"]),
                      "invited": sorted(u["invited_to"])}
                  for n, u in snap["users"].items()},
        "chans": {n: {"topic": c["topic"],
                      "flags": "".join(sorted(l for k, l in (("invite_only", "i"), ("moderated", "m"),
                                                              ("secret", "s"), ("protected_topic", "t"),
                                                              ("no_external_messages", "n")) if c[k])),
                      "key": c["key"], "limit": c["client_limit"], "ban": sorted(c["ban"] or ()),
                      "exc": sorted(c["exception"] or ()), "invex": sorted(c["invite_exception"] or ()),
                      "preconf": c["preconfigured"],
                      "members": {m: "".join(x for x in ranks if x in r) for m, r in c["users"].items()}}
                  for n, c in snap["channels"].items()},
        "whowas": {n: len(v) for n, v in snap["nick_histories"].items()},
        "max_users": snap["max_users_count"],
    }


def diff(a, b, path=""):
    """list of (path, a value, b value) where the two canonical states differ"""
    out = []
    if isinstance(a, dict) and isinstance(b, dict):
        for k in sorted(set(a) | set(b)):
            if k not in a:
                out.append((path + "/" + str(k), None, b[k]))
            elif k not in b:
                out.append((path + "/" + str(k), a[k], None))
            else:
                out += diff(a[k], b[k], path + "/" + str(k))
    elif a != b:
        out.append((path, a, b))
    return out
