// Pure in-process differential harness over the *live* sources of the system under test.
// `sut-src` is a symlink to $VERIF_REPO/src created by the runner (sircv/pure.py).
#![allow(dead_code, unused_imports, clippy::all)]

#[path = "../sut-src/command.rs"]
mod command;
#[path = "../sut-src/utils.rs"]
mod utils;

// names the sut modules expect at crate root
pub(crate) use command::*;
pub(crate) use utils::*;

use std::collections::BTreeMap;
use std::panic::{catch_unwind, AssertUnwindSafe};

// ---------------------------------------------------------------- PRNG
struct Rng(u64);
impl Rng {
    fn next(&mut self) -> u64 {
        self.0 = self.0.wrapping_add(0x9e3779b97f4a7c15);
        let mut x = self.0;
        x = (x ^ (x >> 30)).wrapping_mul(0xbf58476d1ce4e5b9);
        x = (x ^ (x >> 27)).wrapping_mul(0x94d049bb133111eb);
        x ^ (x >> 31)
    }
    fn below(&mut self, n: usize) -> usize {
        (self.next() % (n as u64)) as usize
    }
    fn pick(&mut self, v: &[&'static str]) -> &'static str {
        v[self.below(v.len())]
    }
}

// ---------------------------------------------------------------- reference grammar
#[derive(Debug, PartialEq, Eq, Clone)]
enum RefParse {
    Empty,
    NoCommand,
    Msg {
        source: Option<String>,
        command: String,
        params: Vec<String>,
    },
}

fn ref_parse(line: &str) -> RefParse {
    let cs: Vec<char> = line.chars().collect();
    let n = cs.len();
    let mut i = 0;
    while i < n && cs[i] == ' ' {
        i += 1;
    }
    if i == n {
        return RefParse::Empty;
    }
    let mut source = None;
    if cs[i] == ':' {
        let mut j = i + 1;
        while j < n && cs[j] != ' ' {
            j += 1;
        }
        source = Some(cs[i + 1..j].iter().collect::<String>());
        i = j;
        while i < n && cs[i] == ' ' {
            i += 1;
        }
        if i == n {
            return RefParse::NoCommand;
        }
    }
    let mut j = i;
    while j < n && cs[j] != ' ' {
        j += 1;
    }
    let command: String = cs[i..j].iter().collect();
    i = j;
    let mut params = vec![];
    loop {
        while i < n && cs[i] == ' ' {
            i += 1;
        }
        if i == n {
            break;
        }
        if cs[i] == ':' {
            params.push(cs[i + 1..].iter().collect());
            break;
        }
        let mut j = i;
        while j < n && cs[j] != ' ' {
            j += 1;
        }
        params.push(cs[i..j].iter().collect());
        i = j;
    }
    RefParse::Msg {
        source,
        command,
        params,
    }
}

fn ref_source_ok(s: &str) -> bool {
    // nick[!user[@host]]: no ':' and '!' before '@' when both are there
    if s.contains(':') {
        return false;
    }
    match (s.find('!'), s.find('@')) {
        (Some(e), Some(a)) => e < a,
        _ => true,
    }
}

fn ref_debug(source: &Option<String>, command: &str, params: &[String]) -> String {
    format!(
        "Message {{ source: {:?}, command: {:?}, params: {:?} }}",
        source.as_deref(),
        command,
        params
    )
}

// what the implementation did with a line, as a string
fn sut_parse(line: &str) -> Result<String, String> {
    let r = catch_unwind(AssertUnwindSafe(|| match Message::from_shared_str(line) {
        Ok(m) => format!("{:?}", m),
        Err(e) => format!("ERR:{:?}", e),
    }));
    r.map_err(|_| "PANIC".to_string())
}

fn expected_parse(line: &str) -> Vec<String> {
    // set of acceptable outcomes
    let errs = || vec!["ERR:NoCommand".to_string(), "ERR:WrongSource".to_string()];
    match ref_parse(line) {
        RefParse::Empty => vec!["ERR:Empty".to_string()],
        RefParse::NoCommand => errs(),
        RefParse::Msg {
            source,
            command,
            params,
        } => {
            if let Some(ref s) = source {
                if !ref_source_ok(s) {
                    // an invalid source: any explicit error is fine
                    return errs();
                }
            }
            let mut v = vec![ref_debug(&source, &command, &params)];
            // degenerate lines (empty source, "command" starting with ':'): the grammar has no
            // valid reading; an explicit error is as good as handing the junk to the 421 path
            if source.as_deref() == Some("") || command.starts_with(':') {
                v.extend(errs());
            }
            v
        }
    }
}

fn classify_line(line: &str) -> String {
    // coarse shape class for coverage accounting and for mismatch signatures
    let mut k = String::new();
    if line.starts_with(' ') {
        k.push_str("lead,");
    }
    if line.trim_start_matches(' ').starts_with(':') {
        k.push_str("src,");
    }
    if line.contains(" :") {
        k.push_str("trail,");
    }
    if line.contains("  ") {
        k.push_str("dbl,");
    }
    if line.ends_with(' ') {
        k.push_str("tailsp,");
    }
    // colon inside a token (not at token start)
    let mut inner = false;
    let mut prev = ' ';
    for (idx, c) in line.chars().enumerate() {
        if c == ':' && idx > 0 && prev != ' ' {
            inner = true;
        }
        prev = c;
    }
    if inner {
        k.push_str("innercolon,");
    }
    if line.contains(": ") || line.ends_with(':') {
        k.push_str("emptyish,");
    }
    if !line.is_ascii() {
        k.push_str("utf8,");
    }
    k
}

struct Tally {
    evaluations: u64,
    classes: BTreeMap<String, u64>,
    mismatches: Vec<(String, String, String, String)>, // (signature, input, got, expected)
    mismatch_count: u64,
    samples: Vec<String>,
}

impl Tally {
    fn new() -> Tally {
        Tally {
            evaluations: 0,
            classes: BTreeMap::new(),
            mismatches: vec![],
            mismatch_count: 0,
            samples: vec![],
        }
    }
    fn seen(&mut self, class: String) {
        self.evaluations += 1;
        *self.classes.entry(class).or_insert(0) += 1;
    }
    fn mismatch(&mut self, sig: String, input: String, got: String, exp: String) {
        self.mismatch_count += 1;
        if self.mismatches.iter().filter(|m| m.0 == sig).count() < 3 && self.mismatches.len() < 60 {
            self.mismatches.push((sig, input, got, exp));
        }
    }
    fn sample(&mut self, s: String) {
        if self.samples.len() < 8 {
            self.samples.push(s);
        }
    }
}

fn jstr(s: &str) -> String {
    let mut o = String::from("\"");
    for c in s.chars() {
        match c {
            '"' => o.push_str("\\\""),
            '\\' => o.push_str("\\\\"),
            '\n' => o.push_str("\\n"),
            '\r' => o.push_str("\\r"),
            '\t' => o.push_str("\\t"),
            c if (c as u32) < 0x20 => o.push_str(&format!("\\u{:04x}", c as u32)),
            c => o.push(c),
        }
    }
    o.push('"');
    o
}

fn emit(mode: &str, t: &Tally, exhaustive: bool, extra: &str) {
    let mut o = String::new();
    o.push_str(&format!(
        "{{\"mode\":{},\"evaluations\":{},\"distinct_classes\":{},\"mismatch_count\":{},\"exhaustive\":{}",
        jstr(mode),
        t.evaluations,
        t.classes.len(),
        t.mismatch_count,
        exhaustive
    ));
    o.push_str(",\"classes\":{");
    for (i, (k, v)) in t.classes.iter().enumerate() {
        if i != 0 {
            o.push(',');
        }
        o.push_str(&format!("{}:{}", jstr(k), v));
    }
    o.push_str("},\"mismatches\":[");
    for (i, m) in t.mismatches.iter().enumerate() {
        if i != 0 {
            o.push(',');
        }
        o.push_str(&format!(
            "{{\"signature\":{},\"input\":{},\"got\":{},\"expected\":{}}}",
            jstr(&m.0),
            jstr(&m.1),
            jstr(&m.2),
            jstr(&m.3)
        ));
    }
    o.push_str("],\"samples\":[");
    for (i, s) in t.samples.iter().enumerate() {
        if i != 0 {
            o.push(',');
        }
        o.push_str(&jstr(s));
    }
    o.push_str("]");
    o.push_str(extra);
    o.push('}');
    println!("{}", o);
}

// ---------------------------------------------------------------- parse mode
fn check_parse_line(t: &mut Tally, line: &str) {
    let class = classify_line(line);
    let got = sut_parse(line).unwrap_or_else(|e| e);
    let exp = expected_parse(line);
    t.seen(class.clone());
    if !exp.contains(&got) {
        let kind = if got == "PANIC" {
            "panic"
        } else if got.starts_with("ERR:") {
            "spurious-error"
        } else if exp[0].starts_with("ERR:") {
            "missing-error"
        } else {
            "misparse"
        };
        t.mismatch(
            format!("parse:{}:{}", kind, class),
            line.to_string(),
            got,
            exp.join(" | "),
        );
    }
}

fn gen_exhaustive(alpha: &[char], maxlen: usize, f: &mut dyn FnMut(&str)) {
    let mut idx = vec![0usize; 0];
    let mut s = String::new();
    f("");
    for len in 1..=maxlen {
        idx.clear();
        idx.resize(len, 0);
        loop {
            s.clear();
            for &i in &idx {
                s.push(alpha[i]);
            }
            f(&s);
            // increment
            let mut p = len;
            loop {
                if p == 0 {
                    break;
                }
                p -= 1;
                idx[p] += 1;
                if idx[p] < alpha.len() {
                    break;
                }
                idx[p] = 0;
                if p == 0 {
                    p = usize::MAX;
                    break;
                }
            }
            if p == usize::MAX {
                break;
            }
        }
    }
}

fn random_line(r: &mut Rng) -> String {
    let verbs = [
        "PRIVMSG", "privmsg", "NoTiCe", "JOIN", "MODE", "TOPIC", "KICK", "USER", "NICK", "PING", "X", "001",
        "WHOIS", "part",
    ];
    let toks = [
        "bob", "#chan", "a:b", "::", "x", "+o", "-b", "*!*@*", "é", "日本", "a,b", "#c:d", "http://x", "~", "",
        "n!u@h",
    ];
    let mut s = String::new();
    for _ in 0..r.below(3) {
        s.push(' ');
    }
    match r.below(6) {
        0 => {
            s.push(':');
            s.push_str(r.pick(&["nick", "n!u@h", "n@h!u", "a:b", "srv.example", ""]));
            for _ in 0..1 + r.below(2) {
                s.push(' ');
            }
        }
        _ => {}
    }
    s.push_str(r.pick(&verbs));
    // "any number of parameters": mostly a few, now and then many (up to 40 middle parameters)
    let np = match r.below(12) {
        0 => 5 + r.below(12),
        1 => 12 + r.below(29),
        _ => r.below(5),
    };
    for _ in 0..np {
        for _ in 0..1 + r.below(2) {
            s.push(' ');
        }
        let t = r.pick(&toks);
        if t.is_empty() {
            s.push('q');
        } else {
            s.push_str(t);
        }
    }
    match r.below(4) {
        0 => {}
        1 => {
            for _ in 0..1 + r.below(2) {
                s.push(' ');
            }
        }
        _ => {
            for _ in 0..1 + r.below(2) {
                s.push(' ');
            }
            s.push(':');
            let nt = r.below(4);
            for k in 0..nt {
                if k > 0 {
                    s.push(' ');
                }
                s.push_str(r.pick(&toks));
            }
            if r.below(4) == 0 {
                s.push(' ');
            }
        }
    }
    s
}

fn mode_parse(seed: u64, maxlen: usize, nrandom: usize) {
    let mut t = Tally::new();
    let alpha = ['a', ':', ' ', '#', 'é'];
    gen_exhaustive(&alpha, maxlen, &mut |s| check_parse_line(&mut t, s));
    let exhaustive_n = t.evaluations;
    let mut r = Rng(seed);
    for i in 0..nrandom {
        let l = random_line(&mut r);
        if i < 6 {
            t.sample(l.clone());
        }
        check_parse_line(&mut t, &l);
    }
    emit(
        "parse",
        &t,
        true,
        &format!(",\"exhaustive_lines\":{},\"alphabet\":\"a: #é\",\"maxlen\":{}", exhaustive_n, maxlen),
    );
}

// ---------------------------------------------------------------- round trip
// to_string_with_source(src) re-parsed by the reference grammar gives the same message back
fn mode_roundtrip(seed: u64, maxlen: usize, nrandom: usize) {
    let mut t = Tally::new();
    let check = |t: &mut Tally, line: &str| {
        if let Ok(m) = catch_unwind(AssertUnwindSafe(|| Message::from_shared_str(line).ok())) {
            if let Some(m) = m {
                let dbg = format!("{:?}", m);
                let out = catch_unwind(AssertUnwindSafe(|| m.to_string_with_source("nick!~user@host")));
                let class = classify_line(line);
                t.seen(class.clone());
                match out {
                    Err(_) => t.mismatch(format!("roundtrip:panic:{}", class), line.to_string(), "PANIC".into(), dbg),
                    Ok(out) => {
                        // the re-parse by the receiver
                        let re = match ref_parse(&out) {
                            RefParse::Msg { source, command, params } => {
                                if source.as_deref() != Some("nick!~user@host") {
                                    "BADSOURCE".to_string()
                                } else {
                                    ref_debug(&None, &command, &params)
                                }
                            }
                            _ => "UNPARSABLE".to_string(),
                        };
                        // compare with the sut's own idea of the message, source dropped
                        let want = {
                            // dbg is Message { source: X, command: .., params: .. } - replace source by None
                            let p = dbg.find(", command: ").unwrap();
                            format!("Message {{ source: None{}", &dbg[p..])
                        };
                        if re != want {
                            t.mismatch(format!("roundtrip:differs:{}", class), line.to_string(), format!("{} => {}", out, re), want);
                        }
                    }
                }
            }
        }
    };
    let alpha = ['a', ':', ' ', '#', 'é'];
    gen_exhaustive(&alpha, maxlen, &mut |s| check(&mut t, s));
    let mut r = Rng(seed ^ 0x5555);
    for i in 0..nrandom {
        let l = random_line(&mut r);
        if i < 6 {
            t.sample(l.clone());
        }
        check(&mut t, &l);
    }
    emit("roundtrip", &t, true, "");
}

// ---------------------------------------------------------------- command table (421 / 461)
fn mode_cmdtable() {
    // (verb, minimal number of parameters, well formed sample parameters)
    let table: Vec<(&str, usize, Vec<&str>)> = vec![
        ("CAP", 1, vec!["LS", "302"]),
        ("AUTHENTICATE", 0, vec!["PLAIN"]),
        ("PASS", 1, vec!["secret"]),
        ("NICK", 1, vec!["bob"]),
        ("USER", 4, vec!["bob", "0", "*", "Bob B"]),
        ("PING", 1, vec!["tok"]),
        ("PONG", 1, vec!["tok"]),
        ("OPER", 2, vec!["bob", "pw"]),
        ("QUIT", 0, vec!["bye"]),
        ("JOIN", 1, vec!["#a", "key"]),
        ("PART", 1, vec!["#a", "reason"]),
        ("TOPIC", 1, vec!["#a", "new topic"]),
        ("NAMES", 0, vec!["#a"]),
        ("LIST", 0, vec!["#a"]),
        ("INVITE", 2, vec!["bob", "#a"]),
        ("KICK", 2, vec!["#a", "bob", "why"]),
        ("MOTD", 0, vec![]),
        ("VERSION", 0, vec![]),
        ("ADMIN", 0, vec![]),
        ("CONNECT", 1, vec!["irc.example.org", "6667"]),
        ("LUSERS", 0, vec![]),
        ("TIME", 0, vec![]),
        ("STATS", 1, vec!["u"]),
        ("LINKS", 0, vec![]),
        ("HELP", 0, vec!["MAIN"]),
        ("INFO", 0, vec![]),
        ("MODE", 1, vec!["#a", "+i"]),
        ("PRIVMSG", 2, vec!["bob", "hello there"]),
        ("NOTICE", 2, vec!["bob", "hello there"]),
        ("WHO", 1, vec!["bob"]),
        ("WHOIS", 1, vec!["bob"]),
        ("WHOWAS", 1, vec!["bob", "2"]),
        ("KILL", 2, vec!["bob", "bye"]),
        ("REHASH", 0, vec![]),
        ("RESTART", 0, vec![]),
        ("SQUIT", 2, vec!["irc.example.org", "bye"]),
        ("AWAY", 0, vec!["gone"]),
        ("USERHOST", 1, vec!["bob", "alice"]),
        ("WALLOPS", 1, vec!["text"]),
        ("ISON", 1, vec!["bob", "alice"]),
        ("DIE", 0, vec!["msg"]),
    ];
    let mut t = Tally::new();
    let cases = ["upper", "lower", "mixed"];
    for (verb, minp, sample) in &table {
        for case in cases.iter() {
            let v = match *case {
                "upper" => verb.to_string(),
                "lower" => verb.to_ascii_lowercase(),
                _ => verb
                    .chars()
                    .enumerate()
                    .map(|(i, c)| if i % 2 == 0 { c.to_ascii_lowercase() } else { c })
                    .collect(),
            };
            for arity in 0..=sample.len() {
                let mut line = v.clone();
                for (k, p) in sample[..arity].iter().enumerate() {
                    if k + 1 == arity && (p.contains(' ')) {
                        line.push_str(" :");
                    } else {
                        line.push(' ');
                    }
                    line.push_str(p);
                }
                let got = catch_unwind(AssertUnwindSafe(|| {
                    let m = Message::from_shared_str(&line).unwrap();
                    match Command::from_message(&m) {
                        Ok(_) => "OK".to_string(),
                        Err(CommandError::NeedMoreParams(_)) => "461".to_string(),
                        Err(CommandError::UnknownCommand(_)) => "421".to_string(),
                        Err(e) => format!("ERR:{}", e),
                    }
                }))
                .unwrap_or_else(|_| "PANIC".to_string());
                let exp = if arity < *minp { "461" } else { "OK" };
                t.seen(format!("{}:{}:{}", verb, case, arity));
                if t.samples.len() < 5 && arity == sample.len() {
                    t.sample(line.clone());
                }
                if got != exp {
                    t.mismatch(format!("cmdtable:{}:{}:{}", verb, arity, got), line, got, exp.to_string());
                }
            }
        }
    }
    // verbs are matched ASCII case-insensitively: letters whose Unicode upper-casing yields an ASCII verb
    // (dotless i, long s, sharp s, ligatures) do not make a known command
    for v in [
        "FOO", "PRIVMSGX", "JOI", "0", "AUTHENTICATEX", "ÉCRIRE", "PRıVMSG", "TOPıC", "KıCK", "nıck", "uſer", "privmſg",
        "paß", "LIﬆ", "quıt", "ſquit", "JOıN", "lıst", "whoıs", "ıson", "kıll", "dıe", "tıme", "ınfo", "lınks", "admın",
        "ınvıte", "notıce", "verſion", "ſtats", "nameſ", "uſerhoſt", "wallopſ", "luſerſ", "paſſ", "reſtart",
    ] {
        let line = format!("{} a b c d", v);
        let got = catch_unwind(AssertUnwindSafe(|| {
            let m = Message::from_shared_str(&line).unwrap();
            match Command::from_message(&m) {
                Ok(_) => "OK".to_string(),
                Err(CommandError::UnknownCommand(_)) => "421".to_string(),
                Err(e) => format!("ERR:{}", e),
            }
        }))
        .unwrap_or_else(|_| "PANIC".to_string());
        t.seen(format!("unknown:{}", v));
        if got != "421" {
            t.mismatch(format!("cmdtable:unknown:{}", got), line, got, "421".into());
        }
    }
    emit("cmdtable", &t, true, "");
}

// ---------------------------------------------------------------- reference glob
fn ref_glob(p: &[char], t: &[char]) -> bool {
    // textbook DP: m[i][j] = p[i..] matches t[j..]
    let (np, nt) = (p.len(), t.len());
    let mut m = vec![vec![false; nt + 1]; np + 1];
    m[np][nt] = true;
    for i in (0..np).rev() {
        for j in (0..=nt).rev() {
            m[i][j] = match p[i] {
                '*' => m[i + 1][j] || (j < nt && m[i][j + 1]),
                '?' => j < nt && m[i + 1][j + 1],
                c => j < nt && t[j] == c && m[i + 1][j + 1],
            };
        }
    }
    m[0][0]
}

fn glob_class(p: &str, t: &str) -> String {
    let mut k = String::new();
    if p.is_empty() {
        k.push_str("emptyp,");
    }
    if t.is_empty() {
        k.push_str("emptyt,");
    }
    if p.starts_with('*') {
        k.push_str("lead*,");
    }
    if p.ends_with('*') {
        k.push_str("trail*,");
    }
    if p.contains("**") {
        k.push_str("**,");
    }
    if p.contains('?') {
        k.push_str("?,");
    }
    let stars = p.matches('*').count();
    k.push_str(&format!("s{},", stars.min(3)));
    // longest literal run vs text length
    let longest = p.split('*').map(|s| s.chars().count()).max().unwrap_or(0);
    if longest > t.chars().count() {
        k.push_str("runlonger,");
    }
    if !p.is_ascii() || !t.is_ascii() {
        k.push_str("utf8,");
    }
    k
}

fn check_glob(t: &mut Tally, p: &str, s: &str) {
    let pc: Vec<char> = p.chars().collect();
    let sc: Vec<char> = s.chars().collect();
    let exp = ref_glob(&pc, &sc);
    let got = catch_unwind(AssertUnwindSafe(|| match_wildcard(p, s)));
    let class = format!("{}{}", glob_class(p, s), if exp { "T" } else { "F" });
    t.seen(class.clone());
    match got {
        Ok(g) if g == exp => {}
        Ok(g) => t.mismatch(
            format!("glob:wrong:{}", class),
            format!("{} ~ {}", p, s),
            g.to_string(),
            exp.to_string(),
        ),
        Err(_) => t.mismatch(
            format!("glob:panic:{}", class),
            format!("{} ~ {}", p, s),
            "PANIC".into(),
            exp.to_string(),
        ),
    }
}

fn all_strings(alpha: &[char], maxlen: usize) -> Vec<String> {
    let mut v = vec![];
    gen_exhaustive(alpha, maxlen, &mut |s| v.push(s.to_string()));
    v
}

fn mode_glob(seed: u64, maxlen: usize, nrandom: usize) {
    let mut t = Tally::new();
    let pats = all_strings(&['a', 'b', '*', '?'], maxlen);
    let texts = all_strings(&['a', 'b'], maxlen);
    for p in &pats {
        for s in &texts {
            check_glob(&mut t, p, s);
        }
    }
    let n_ascii = t.evaluations;
    let ulen = if maxlen > 5 { 5 } else { maxlen };
    let pats = all_strings(&['é', 'a', '*', '?'], ulen);
    let texts = all_strings(&['é', 'a'], ulen);
    for p in &pats {
        for s in &texts {
            check_glob(&mut t, p, s);
        }
    }
    let n_utf = t.evaluations - n_ascii;
    // texts may contain the wildcard characters themselves (nick names, user names and real names may): in the text
    // they are ordinary characters
    let pats = all_strings(&['a', '*', '?', '\\'], if ulen > 4 { 4 } else { ulen });
    let texts = all_strings(&['a', '*', '?', '\\'], if ulen > 4 { 4 } else { ulen });
    for p in &pats {
        for s in &texts {
            check_glob(&mut t, p, s);
        }
    }
    let mut r = Rng(seed ^ 0x77);
    let atoms = ["a", "b", "ab", "nick", "!", "@", "~user", "127.0.0.1", "*", "*", "?", "é", "日", "host.example", "zzzzzzzz", "\\", "[", "]"];
    for i in 0..nrandom {
        let mut p = String::new();
        for _ in 0..r.below(6) {
            p.push_str(r.pick(&atoms));
        }
        let mut s = String::new();
        match r.below(3) {
            0 => {
                // derive a text from the pattern so that matches are frequent
                for c in p.chars() {
                    match c {
                        '*' => {
                            for _ in 0..r.below(3) {
                                s.push_str(r.pick(&["a", "b", "é", "x", "*", "?"]));
                            }
                        }
                        '?' => s.push_str(r.pick(&["a", "é", "日", "?", "*"])),
                        c => {
                            if r.below(12) != 0 {
                                s.push(c)
                            }
                        }
                    }
                }
            }
            _ => {
                for _ in 0..r.below(5) {
                    let a = r.pick(&atoms);
                    if a != "*" && a != "?" {
                        s.push_str(a);
                    }
                }
            }
        }
        if i < 6 {
            t.sample(format!("{} ~ {}", p, s));
        }
        check_glob(&mut t, &p, &s);
    }
    // "yields an answer for every mask and every text": many stars, a literal that never matches, a long repetitive
    // text - the answer (false, or true for the matching twin) has to come in time, not after 2^k attempts
    let mut stuck = false;
    // (under Miri every step costs milliseconds: small cases and a generous limit there)
    let cases: &[(usize, usize)] = if cfg!(miri) { &[(4, 20), (6, 30)] } else { &[(4, 20), (8, 40), (12, 60), (16, 80), (24, 200), (40, 400)] };
    let limit = std::time::Duration::from_secs(if cfg!(miri) { 300 } else { 5 });
    for &(k, n) in cases {
        for (tail, want) in [("*#", false), ("*", true), ("*a", true), ("b*", false)] {
            let p: String = "*a".repeat(k) + tail;
            let s: String = "a".repeat(n);
            let (tx, rx) = std::sync::mpsc::channel();
            let (p2, s2) = (p.clone(), s.clone());
            std::thread::spawn(move || {
                let r = catch_unwind(AssertUnwindSafe(|| match_wildcard(&p2, &s2)));
                let _ = tx.send(r);
            });
            t.seen(format!("terminates:{}x{}", k, n));
            match rx.recv_timeout(limit) {
                Ok(Ok(g)) if g == want => {}
                Ok(Ok(g)) => t.mismatch("glob:wrong:many-stars".into(), format!("{} ~ {}", p, s), g.to_string(), want.to_string()),
                Ok(Err(_)) => t.mismatch("glob:panic:many-stars".into(), format!("{} ~ {}", p, s), "PANIC".into(), want.to_string()),
                Err(_) => {
                    t.mismatch("glob:no-answer".into(), format!("{} ~ {}", p, s), "no answer within 5 s".into(), want.to_string());
                    stuck = true;
                    break;
                }
            }
        }
        if stuck {
            break;
        }
    }
    emit(
        "glob",
        &t,
        true,
        &format!(",\"exhaustive_pairs_ascii\":{},\"exhaustive_pairs_utf8\":{},\"maxlen\":{}", n_ascii, n_utf, maxlen),
    );
    if stuck {
        // a matcher thread is still spinning: leave without waiting for it
        std::process::exit(0);
    }
}

// ---------------------------------------------------------------- mask completion
fn ref_complete(mask: &str) -> String {
    if let Some(p) = mask.find('!') {
        let rest = &mask[p + 1..];
        if rest.contains('@') {
            mask.to_string()
        } else {
            format!("{}@*", mask)
        }
    } else if let Some(p) = mask.find('@') {
        format!("{}!*{}", &mask[..p], &mask[p..])
    } else {
        format!("{}!*@*", mask)
    }
}

fn mode_mask(maxlen: usize) {
    let mut t = Tally::new();
    let masks = all_strings(&['n', '!', '@', '*', 'é'], maxlen);
    for m in &masks {
        let exp = ref_complete(m);
        let got = catch_unwind(AssertUnwindSafe(|| normalize_sourcemask(m)));
        let class = format!("e{}a{}", m.matches('!').count().min(2), m.matches('@').count().min(2));
        t.seen(class.clone());
        if t.samples.len() < 6 && m.len() > 3 {
            t.sample(format!("{} -> {}", m, exp));
        }
        match got {
            Ok(g) if g == exp => {}
            Ok(g) => t.mismatch(format!("mask:wrong:{}", class), m.clone(), g, exp),
            Err(_) => t.mismatch(format!("mask:panic:{}", class), m.clone(), "PANIC".into(), exp),
        }
    }
    emit("mask", &t, true, "");
}

// ---------------------------------------------------------------- password hash round trip
fn mode_hash(seed: u64, n: usize) {
    let mut t = Tally::new();
    let mut r = Rng(seed ^ 0x99);
    let atoms = ["a", "B", "1", " ", "é", "日本", "\"", "\\", "'", "$", "pass", "Pass", "pass ", "ß", "\u{0301}"];
    let mut pws: Vec<String> = vec!["".into(), "a".into(), "A".into(), "a ".into(), " a".into(), "pass".into(), "Pass".into()];
    for _ in 0..n {
        let mut p = String::new();
        for _ in 0..1 + r.below(5) {
            p.push_str(r.pick(&atoms));
        }
        pws.push(p);
    }
    let hashes: Vec<Result<String, ()>> = pws
        .iter()
        .map(|p| catch_unwind(AssertUnwindSafe(|| argon2_hash_password(p))).map_err(|_| ()))
        .collect();
    for (i, p) in pws.iter().enumerate() {
        let h = match &hashes[i] {
            Ok(h) => h,
            Err(_) => {
                t.seen("hashpanic".into());
                t.mismatch("hash:panic".into(), p.clone(), "PANIC".into(), "hash".into());
                continue;
            }
        };
        if validate_password_hash(h).is_err() {
            t.mismatch("hash:invalid-own-hash".into(), p.clone(), h.clone(), "valid".into());
        }
        // verify against itself and against a handful of others
        let mut others = vec![i];
        for _ in 0..4 {
            others.push(r.below(pws.len()));
        }
        if i + 1 < pws.len() {
            others.push(i + 1);
        }
        for j in others {
            let q = &pws[j];
            let exp = p == q;
            let got = catch_unwind(AssertUnwindSafe(|| argon2_verify_password(q, h).is_ok()));
            t.seen(format!("{}{}", if exp { "same" } else { "diff" }, if p.is_ascii() && q.is_ascii() { "" } else { ":utf8" }));
            if t.samples.len() < 4 {
                t.sample(format!("verify({:?}, hash({:?})) = {}", q, p, exp));
            }
            match got {
                Ok(g) if g == exp => {}
                Ok(g) => t.mismatch(format!("hash:wrong:{}", exp), format!("{:?} vs {:?}", q, p), g.to_string(), exp.to_string()),
                Err(_) => t.mismatch("hash:verify-panic".into(), format!("{:?} vs {:?}", q, p), "PANIC".into(), exp.to_string()),
            }
        }
    }
    // malformed hashes are rejected by the validator and never verify
    for bad in ["", "abc", "not base64 !!", "AAAA", &"A".repeat(85), &"A".repeat(87)] {
        t.seen("malformed".into());
        if validate_password_hash(bad).is_ok() {
            t.mismatch("hash:malformed-accepted".into(), bad.to_string(), "valid".into(), "invalid".into());
        }
        let got = catch_unwind(AssertUnwindSafe(|| argon2_verify_password("x", bad).is_ok()));
        match got {
            Ok(false) => {}
            Ok(true) => t.mismatch("hash:malformed-verifies".into(), bad.to_string(), "true".into(), "false".into()),
            Err(_) => t.mismatch("hash:malformed-panic".into(), bad.to_string(), "PANIC".into(), "false".into()),
        }
    }
    emit("hash", &t, false, "");
}

// ---------------------------------------------------------------- eval mode (stdin driven)
fn mode_eval() {
    use std::io::BufRead;
    let stdin = std::io::stdin();
    for line in stdin.lock().lines() {
        let line = line.unwrap();
        if let Some(rest) = line.strip_prefix("P ") {
            println!("{}", sut_parse(rest).unwrap_or_else(|e| e));
        } else if let Some(rest) = line.strip_prefix("G ") {
            let mut it = rest.splitn(2, '\t');
            let p = it.next().unwrap_or("");
            let s = it.next().unwrap_or("");
            let got = catch_unwind(AssertUnwindSafe(|| match_wildcard(p, s)));
            println!("{}", got.map(|b| b.to_string()).unwrap_or_else(|_| "PANIC".into()));
        }
    }
}

fn main() {
    let args: Vec<String> = std::env::args().collect();
    let mode = args.get(1).map(|s| s.as_str()).unwrap_or("all");
    let seed: u64 = args.get(2).and_then(|s| s.parse().ok()).unwrap_or(1);
    let size: usize = args.get(3).and_then(|s| s.parse().ok()).unwrap_or(5);
    let nrandom: usize = args.get(4).and_then(|s| s.parse().ok()).unwrap_or(10000);
    // silence panic messages of caught panics (Miri and plain runs alike)
    std::panic::set_hook(Box::new(|_| {}));
    match mode {
        "parse" => mode_parse(seed, size, nrandom),
        "roundtrip" => mode_roundtrip(seed, size, nrandom),
        "cmdtable" => mode_cmdtable(),
        "glob" => mode_glob(seed, size, nrandom),
        "mask" => mode_mask(size),
        "hash" => mode_hash(seed, nrandom),
        "eval" => mode_eval(),
        _ => {
            eprintln!("usage: pure <parse|roundtrip|cmdtable|glob|mask|hash|eval> seed size nrandom");
            std::process::exit(2);
        }
    }
}
